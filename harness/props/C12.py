"""C12 — generated lifting-line geometry reproduces the described wing."""
import math, copy, json
import numpy as np
from harness import common, gen, api
from harness.common import fhex, flist, ftable, ftable2, cbool

LEVEL = "proof"
IMPORTS = ["From MuxV Require Import Base.Num Base.Vec3 Base.FInst Model.Grid Model.GridF Model.QCurve Model.QCurveF Model.Kuchemann Model.KuchemannF Model.SegSort Model.SegSortF Model.Wings Model.LoadOrder Model.Swept Model.SweptF Model.Reid Model.ReidF Model.Gather Model.GatherF."]


# ------------------------------------------------------------------ grid correspondence
def mirror_alloc(w):
    """the cluster points and the Python-rounded allocation of one segment description (wing_segment.py 126-168)"""
    g = w.get("grid", {})
    N = g.get("N", 40)
    discont = []
    if g.get("flap_edge_cluster", True) and w.get("control_surface") is not None:
        cs = w["control_surface"]
        discont += [cs.get("root_span", 0.0), cs.get("tip_span", 1.0)]
    discont += list(g.get("cluster_points", []))
    discont = [d for d in discont if d != 1.0 and d != 0.0]
    discont.sort()
    discont = [0.0] + discont + [1.0]
    rounded = [int(round(N * (discont[i + 1] - discont[i]))) for i in range(len(discont) - 1)]
    return N, discont, rounded


def grid_cases(chk, seg, w, cases, descr):
    g = w.get("grid", {})
    dist = g.get("distribution", "cosine_cluster")
    left = seg.side == "left"
    nodes, cps = [float(x) for x in seg.node_span_locs], [float(x) for x in seg.cp_span_locs]
    if dist == "cosine_cluster":
        N, discont, rounded = mirror_alloc(w)
        adj = list(rounded)
        diff = int(sum(rounded) - N)
        if adj[0] - diff >= 0:
            adj[0] -= diff
        else:                                   # root section too short: one at a time from the (first) longest section
            for _ in range(diff):
                adj[adj.index(max(adj))] -= 1
        cases.append("chk_alloc (%d)%%Z [%s] [%s]" % (N, "; ".join("(%d)%%Z" % r for r in rounded), "; ".join("(%d)%%Z" % r for r in adj)))
        descr.append(dict(what="alloc", N=N, discont=discont))
        ct = []
        secs = []
        for i, n in enumerate(adj):
            if n <= 0:
                continue
            for th in list(np.linspace(0.0, np.pi, n + 1))[1:]:
                ct.append((float(th), float(np.cos(th))))
            for th in np.linspace(np.pi / n, np.pi, n) - np.pi / (2 * n):
                ct.append((float(th), float(np.cos(th))))
            secs.append("(%s, %s, %d%%nat)" % (fhex(discont[i]), fhex(discont[i + 1]), n))
        cases.append("chk_grid %s %s %s [%s] %s %s" % (ftable(ct), fhex(np.pi), cbool(left), "; ".join(secs), flist(nodes), flist(cps)))
        descr.append(dict(what="cosine-grid", side=seg.side, discont=discont, alloc=adj))
    elif dist == "linear":
        cases.append("chk_linear_grid %s %d%%nat %s %s" % (cbool(left), seg.N, flist(nodes), flist(cps)))
        descr.append(dict(what="linear-grid", side=seg.side, N=seg.N))
    else:
        cases.append("chk_explicit_grid %s %s %s %s" % (cbool(left), flist(dist), flist(nodes), flist(cps)))
        descr.append(dict(what="explicit-grid", side=seg.side))
    node_chords = [float(x) for x in seg.get_chord(seg.node_span_locs)]
    cases.append("chk_areas %s %s %s %s %s" % (fhex(seg.b), flist(nodes), flist(node_chords), flist(seg.c_bar_cp), flist(seg.dS)))
    descr.append(dict(what="areas", side=seg.side))
    chk.count("grid=%s/%s" % (dist if isinstance(dist, str) else "explicit", seg.side))



# ------------------------------------------------------------------ quarter-chord curve correspondence (Model/QCurve.v)
D2R = math.pi / 180.0


def cdist(v):
    """a span-wise description value -> Coq [dist float] (None if it is not a number or a table)"""
    if v is None:
        return "(DConst 0x0p+0)"
    if isinstance(v, (int, float)) and not isinstance(v, bool):
        return "(DConst %s)" % fhex(float(v))
    if isinstance(v, list) and v and all(isinstance(r, (list, tuple)) and len(r) == 2 for r in v):
        return "(DTab %s)" % ftable([(float(r[0]), float(r[1])) for r in v])
    return None


def py_angle(v, s):
    """Python twin of Model/QCurve.v angle_val"""
    if v is None:
        return 0.0 * D2R
    if isinstance(v, (int, float)):
        return float(v) * D2R
    return float(np.interp(s, [float(r[0]) for r in v], np.radians([float(r[1]) for r in v])))


def py_discont(w):
    out = []
    for k in ("dihedral", "sweep"):
        if isinstance(w.get(k), list):
            for r in w[k]:
                if float(r[0]) not in out:
                    out.append(float(r[0]))
    for x in (0.0, 1.0):
        if x not in out:
            out.append(x)
    return sorted(out)


def ftrip(vs):
    return "[" + "; ".join("(%s, %s, %s)" % (fhex(v[0]), fhex(v[1]), fhex(v[2])) for v in vs) + "]"


def qcurve_cases(chk, ac, a, cases, descr):
    from scipy.integrate import quad
    by_name = {seg.name: seg for seg in a.segments}
    for seg in a.segments:
        name = seg.name.rsplit("_", 1)[0]
        w = ac["wings"][name]
        left = seg.side == "left"
        spans = [float(x) for x in seg.node_span_locs] + [float(x) for x in seg.cp_span_locs]
        root = [float(x) for x in seg.get_root_loc()]
        got = np.array(seg._get_quarter_chord_loc(np.array(spans)), dtype=float)
        tw, di, sw = cdist(w.get("twist")), cdist(w.get("dihedral")), cdist(w.get("sweep"))
        if "quarter_chord_locs" in w:
            pts = [[float(x) for x in p] for p in w["quarter_chord_locs"]]
            cases.append("chk_qc_points %s (%s, %s, %s) %s %s %s %s" % (cbool(left), fhex(root[0]), fhex(root[1]), fhex(root[2]), ftrip(pts),
                                                                       fhex(seg.b), flist(spans), ftrip(got)))
            descr.append(dict(what="quarter-chord-points", segment=seg.name))
            chk.count("qcurve=points/" + seg.side)
            # the section dihedral derived from the points: finite-difference window, argument arrangement per side, arctan2 as an oracle
            rows_, tab_ = [], {}
            srows_, tat_, tsq_ = [], {}, {}
            for s_ in [float(x) for x in seg.cp_span_locs]:
                lo, hi = (s_, s_ + 0.01) if s_ < 0.005 else ((s_ - 0.01, s_) if s_ > 0.995 else (s_ - 0.005, s_ + 0.005))
                p0 = [float(x) for x in seg._get_quarter_chord_loc(lo)]
                p1 = [float(x) for x in seg._get_quarter_chord_loc(hi)]
                dz_, dy_ = p1[2] - p0[2], p1[1] - p0[1]
                a_, b_ = (-dz_, -dy_) if left else (dz_, dy_)
                tab_[(float(a_).hex(), float(b_).hex())] = (float(a_), float(b_), float(np.arctan2(a_, b_)))
                rows_.append("(%s, (%s, %s), (%s, %s))" % (fhex(s_), fhex(lo), fhex(hi), ft3(p0), ft3(p1)))
                # ... and the section sweep: -arctan(dx / sqrt(dy**2 + dz**2)), negated on the left (x**2 on a NumPy scalar is pow: an oracle)
                for v_ in (dy_, dz_):
                    tsq_[float(v_).hex()] = (float(v_), float(np.float64(v_) ** 2))
                t_ = float((p1[0] - p0[0]) / np.sqrt(np.float64(dy_) ** 2 + np.float64(dz_) ** 2))
                tat_[t_.hex()] = (t_, float(np.arctan(t_)))
                srows_.append("(%s, %s)" % (ft3(p0), ft3(p1)))
            cases.append("chk_dihedral_points %s %s [%s] %s" % (ftable2(list(tab_.values())), cbool(left), "; ".join(rows_), flist(seg.dihedral_cp)))
            descr.append(dict(what="dihedral-from-points", segment=seg.name))
            cases.append("chk_sweep_points %s %s %s [%s] %s" % (ftable(list(tat_.values())), ftable(list(tsq_.values())), cbool(left), "; ".join(srows_), flist(seg.sweep_cp)))
            descr.append(dict(what="sweep-from-points", segment=seg.name))
        elif di is not None and sw is not None:
            disc = py_discont(w)
            cps = [float(x) for x in seg.cp_span_locs]
            if tw is not None:
                cases.append("chk_angles %s %s %s %s %s %s %s %s %s" % (fhex(D2R), cbool(left), tw, di, sw, flist(cps), flist(seg.twist_cp), flist(seg.dihedral_cp),
                                                                       flist(seg.sweep_cp)))
                descr.append(dict(what="section-angles", segment=seg.name))
            cases.append("chk_discont %s %s %s" % (di, sw, flist(seg._discont)))
            descr.append(dict(what="discontinuities", segment=seg.name))
            sgn_s = -1.0 if left else 1.0
            sgn_d = 1.0 if left else -1.0
            igs = (lambda t: math.tan(sgn_s * py_angle(w.get("sweep"), t)),
                   lambda t: -math.cos(sgn_d * py_angle(w.get("dihedral"), t)),
                   lambda t: -math.sin(sgn_d * py_angle(w.get("dihedral"), t)))
            keys = set()
            for s_ in spans:
                for j in range(1, len(disc)):
                    if s_ > disc[j]:
                        keys.add((disc[j - 1], disc[j]))
                    else:
                        keys.add((disc[j - 1], s_))
                        break
            tabs = [[(a_, b_, quad(ig, a_, b_)[0]) for (a_, b_) in sorted(keys)] for ig in igs]
            cases.append("chk_qc_standard %s (%s, %s, %s) %s %s %s %s %s %s %s %s" % (
                cbool(left), fhex(root[0]), fhex(root[1]), fhex(root[2]), fhex(seg.b), di, sw, ftable2(tabs[0]), ftable2(tabs[1]), ftable2(tabs[2]),
                flist(spans), ftrip(got)))
            descr.append(dict(what="quarter-chord-curve", segment=seg.name, discont=disc))
            chk.count("qcurve=standard/%s/pieces=%d" % (seg.side, len(disc) - 1))
        # the offset of the lifting line on Kuchemann's locus of aerodynamic centres (Model/Kuchemann.v): the stored table, bit for bit
        lld = seg._getter_data.get("ll_offset")
        if w.get("ll_offset") == "kuchemann" and isinstance(lld, np.ndarray) and lld.ndim == 2:
            area = quad(lambda s_: seg.get_chord(s_), 0, 1)[0]
            CLa = float(seg._airfoils[0].get_CLa(alpha=0.0))
            sw0 = float(seg.get_sweep(0.0))
            locs = [float(x) for x in lld[:, 0]]
            chs = [float(x) for x in (np.array(seg.get_chord(np.array(locs)), dtype=float) * np.ones(len(locs)))]
            s_ = abs(sw0)
            RA = 2.0 * seg.b / area
            q1 = CLa * math.cos(s_) / (math.pi * RA); p1 = q1 ** 2; p2 = (1 + p1) ** 0.25
            se = s_ / p2
            q2 = CLa * math.cos(se) / (math.pi * RA); p3 = q2 ** 2
            ex = math.pi / (4.0 * (math.pi + 2.0 * abs(se)))
            K = (1 + p3) ** ex
            tck = [(s_, math.cos(s_)), (se, math.cos(se))]
            ttk = [(se, math.tan(se))]
            tpk = [(q1, 2.0, p1), (1 + p1, 0.25, p2), (q2, 2.0, p3), (1 + p3, ex, K)]
            cases.append("chk_kuchemann %s %s %s %s %s %s %s %s %s %s" % (
                ftable(tck), ftable(ttk), ftable2(tpk), fhex(math.pi), fhex(CLa), fhex(float(seg.b)), fhex(float(area)), fhex(sw0),
                "[" + "; ".join("(%s, %s)" % (fhex(a_), fhex(b_)) for a_, b_ in zip(locs, chs)) + "]", flist([float(x) for x in lld[:, 1]])))
            descr.append(dict(what="kuchemann-offset", segment=seg.name, sweep=sw0))
            chk.count("kuchemann-offset=" + seg.side)
        # connection point
        c = w.get("connect_to", {})
        pid = c.get("ID", 0)
        at_root = c.get("location", "tip") == "root"
        if pid == 0:
            attach, pleft, pyoff, at_root_flag = [0.0, 0.0, 0.0], False, 0.0, False
        else:
            pname = [n for n, ww in ac["wings"].items() if ww["ID"] == pid][0]
            pw = ac["wings"][pname]
            pseg = by_name.get(pname + "_" + seg.side) or by_name.get(pname + "_left") or by_name.get(pname + "_right")
            pleft = pseg.side == "left"
            pyoff = float(pw.get("connect_to", {}).get("y_offset", 0.0))
            attach = [float(x) for x in (pseg.get_root_loc() if at_root else pseg._get_quarter_chord_loc(1.0))]
            at_root_flag = at_root
        cases.append("chk_root %s (%s, %s, %s) %s %s %s %s %s %s %s (%s, %s, %s)" % (
            cbool(left), fhex(attach[0]), fhex(attach[1]), fhex(attach[2]), cbool(at_root_flag), cbool(pleft), fhex(pyoff),
            fhex(c.get("dx", 0.0)), fhex(c.get("dy", 0.0)), fhex(c.get("dz", 0.0)), fhex(c.get("y_offset", 0.0)), fhex(root[0]), fhex(root[1]), fhex(root[2])))
        descr.append(dict(what="connection-point", segment=seg.name, connect_to=c))
        chk.count("connect=%s" % ("origin" if pid == 0 else c.get("location", "tip")))
        # lifting line = quarter chord + offset x chord along the unswept chord line
        sp = np.array(spans)
        off = np.array(seg._get_ll_offset(sp), dtype=float) * np.ones(len(spans))
        ch = np.array(seg.get_chord(sp), dtype=float) * np.ones(len(spans))
        twv = np.array(seg.get_twist(sp), dtype=float) * np.ones(len(spans))
        div = np.array(seg.get_dihedral(sp), dtype=float) * np.ones(len(spans))
        args = list({float(x).hex(): float(x) for x in twv.tolist() + div.tolist()}.values())     # +0.0 and -0.0 are different keys
        tc = [(x, float(np.cos(np.array([x]))[0])) for x in args]
        ts = [(x, float(np.sin(np.array([x]))[0])) for x in args]
        rows = "[" + "; ".join("((%s, %s, %s), %s, %s, %s, %s)" % (fhex(got[i][0]), fhex(got[i][1]), fhex(got[i][2]), fhex(off[i]), fhex(ch[i]), fhex(twv[i]), fhex(div[i]))
                               for i in range(len(spans))) + "]"
        exp = [list(map(float, p)) for p in seg.nodes] + [list(map(float, p)) for p in seg.control_points]
        cases.append("chk_ll %s %s %s %s" % (ftable(tc), ftable(ts), rows, ftrip(exp)))
        descr.append(dict(what="lifting-line-offset", segment=seg.name, ll_offset=w.get("ll_offset", 0.0)))


def swept_cases(chk, a, cases, descr):
    """Model/Swept.v: the arrays of swept unit vectors (axial, normal, span) every segment stores at its nodes, recomputed by the model from
    the lifting-line points and the unswept chord directions at the nodes"""
    for seg in a.segments:
        if seg.N < 2:
            continue
        nodes = np.array(seg.node_span_locs, dtype=float)
        ll = np.array(seg._get_ll_loc(nodes), dtype=float)
        ua0 = np.array(seg._get_unswept_axial_vec(nodes), dtype=float)
        exp = "[" + "; ".join("(%s, %s, %s)" % (cv3(seg._u_a_dist[i]), cv3(seg._u_n_dist[i]), cv3(seg._u_s_dist[i])) for i in range(len(nodes))) + "]"
        cases.append("chk_swept 0x1p-30 [%s] [%s] %s" % ("; ".join(cv3(p_) for p_ in ll), "; ".join(cv3(p_) for p_ in ua0), exp))
        descr.append(dict(what="swept-section-vectors", segment=seg.name))
        chk.count("swept-vectors=" + seg.side)
        # ... and the triads at the control points, from the node arrays listed with ascending span fractions
        order = np.argsort(nodes)
        xs = [float(nodes[k_]) for k_ in order]
        cases.append("chk_cp_triads 0x1p-30 %s [%s] [%s] %s [%s]" % (
            flist(xs), "; ".join(cv3(seg._u_a_dist[k_]) for k_ in order), "; ".join(cv3(seg._u_s_dist[k_]) for k_ in order),
            flist([float(x_) for x_ in seg.cp_span_locs]),
            "; ".join("(%s, %s, %s)" % (cv3(seg.u_a_cp[i]), cv3(seg.u_n_cp[i]), cv3(seg.u_s_cp[i])) for i in range(seg.N))))
        descr.append(dict(what="control-point-triads", segment=seg.name))


def wing_group_cases(chk, a, cases, descr):
    """Model/Wings.v: the grouping of the half-segments into wings recomputed by the model from what the procedure reads (ID, side, mirror,
    zero lateral offset, continuation, connected-to ID, parent's mirror) in dictionary order; compared wing by wing as multisets (the live
    wings are re-ordered afterwards by _sort_segments_left_to_right), with the number of wings and each half-segment's wing_ID"""
    cb = common.cbool
    hs = []
    for name, seg in a.wing_segments.items():
        hs.append("(mk_hs %d%%nat %s %s %s %s %d%%nat %s)" % (int(seg.ID), cb(seg.side == "right"), cb(bool(seg.has_mirror)), cb(abs(float(seg.y_offset)) < 1e-12),
                                                              cb(bool(seg.is_continuation())), int(seg._connected_to_ID), cb(bool(getattr(seg, "parent_has_mirror", False)))))
    live = []
    for wi, wing in enumerate(a._segments_in_wings):
        live.append("[" + "; ".join("(%d%%nat, %s)" % (int(s_.ID), cb(s_.side == "right")) for s_ in wing) + "]")
        for s_ in wing:
            if s_.wing_ID != wi:
                chk.violation("wing-group:wing_ID", dict(kind="wing-group", segment=s_.name, wing_ID=int(s_.wing_ID), listed_in_wing=wi))
    cases.append("chk_wings [%s] [%s] %d%%nat" % ("; ".join(hs), "; ".join(live), int(a._num_wings)))
    descr.append(dict(what="wing-grouping", segments=list(a.wing_segments.keys()), wings=[[s_.name for s_ in w] for w in a._segments_in_wings]))
    chk.count("wing-grouping:wings=%d" % len(a._segments_in_wings))
    chk.count("wing-grouping:halves=%d" % len(a.wing_segments))


def wing_tree_cases(chk, MX, n, cases, descr):
    """random segment trees for the grouping: one- and two-sided segments attached to the origin or to earlier segments at the tip or the root,
    with and without connection offsets and lateral offsets (tip continuations, branches, T-tails on one-sided fins, split wings)"""
    rng = chk.rng
    for it in range(n):
        ac = gen.simple_wing_aircraft(N=2, reid=False, controls=False)
        base = copy.deepcopy(ac["wings"]["main_wing"])
        base["grid"] = {"N": 2, "reid_corrections": False}
        base["is_main"] = False
        wings = {}
        m = rng.randint(2, 6)
        sides = {}
        for k in range(1, m + 1):
            w = copy.deepcopy(base)
            w["ID"] = k
            w["side"] = rng.choice(["both", "both", "left", "right"])
            w["semispan"] = round(rng.uniform(0.8, 2.5), 3)
            w["dihedral"] = rng.choice([0.0, 0.0, 10.0, 90.0, -20.0])
            con = {}
            if k > 1 and rng.random() < 0.8:
                con["ID"] = rng.randint(1, k - 1)
                con["location"] = rng.choice(["tip", "tip", "tip", "root"])
                if rng.random() < 0.25:
                    con[rng.choice(["dx", "dy", "dz"])] = rng.choice([-0.3, 0.2])
            else:
                con["ID"] = 0
                con["dx"] = -1.5 * (k - 1)
            if rng.random() < 0.2:
                con["y_offset"] = 0.3
            w["connect_to"] = con
            if k == 1:
                w["is_main"] = True
            sides[k] = w["side"]
            wings["seg%d" % k] = w
        ac["wings"] = wings
        try:
            sc = gen.build_scene(MX, {"scene": {"atmosphere": {"rho": 0.0023769}}}, [("a", ac, {"velocity": 50.0}, {})])
        except Exception as e:
            chk.count("wing-tree:rejected:" + type(e).__name__)      # e.g. a left half asked to hang on a right-only parent
            continue
        a = sc._airplanes["a"]
        chk.case(dict(kind="wing-tree", n=m, sides=[sides[k] for k in sorted(sides)]), nontrivial=len(a._segments_in_wings) >= 2)
        # the same description with the "wings" dictionary written in another order is the same aircraft: it builds, and every half-segment
        # lies where it lay (a JSON object is unordered; fix for chains listed grandchild, parent, child)
        keys = list(wings)
        rng.shuffle(keys)
        ac2 = copy.deepcopy(ac)
        ac2["wings"] = {k_: copy.deepcopy(wings[k_]) for k_ in keys}
        try:
            sc2 = gen.build_scene(MX, {"scene": {"atmosphere": {"rho": 0.0023769}}}, [("a", ac2, {"velocity": 50.0}, {})])
            a2 = sc2._airplanes["a"]
            for nm_, s_ in a.wing_segments.items():
                if nm_ not in a2.wing_segments or not np.allclose(np.array(a2.wing_segments[nm_].control_points), np.array(s_.control_points), rtol=1e-12, atol=1e-12) \
                        or not np.allclose(np.array(a2.wing_segments[nm_].nodes), np.array(s_.nodes), rtol=1e-12, atol=1e-12):
                    chk.violation("wings-order:geometry", dict(kind="wings-order", aircraft=ac, order=keys, segment=nm_))
                    break
            chk.count("wings-order:shuffled")
            # Model/LoadOrder.v: the order of attachment recomputed from (position in the dictionary, ID, connected-to ID)
            idx = {k_: i_ for i_, k_ in enumerate(keys)}
            live_order = []
            for nm_ in a2.wing_segments:
                b_ = nm_.rsplit("_", 1)[0]
                if idx[b_] not in live_order:
                    live_order.append(idx[b_])
            cases.append("chk_load_order [%s] [%s]" % ("; ".join("(%d%%nat, %d%%nat, %d%%nat)" % (idx[k_], int(wings[k_]["ID"]), int(wings[k_].get("connect_to", {}).get("ID", 0))) for k_ in keys),
                                                       "; ".join("%d%%nat" % i_ for i_ in live_order)))
            descr.append(dict(what="load-order", order=keys, aircraft=ac2))
        except Exception as e:
            chk.violation("wings-order:rejected", dict(kind="wings-order", aircraft=ac, order=keys, error=repr(e)))
        k0 = len(descr)
        wing_group_cases(chk, a, cases, descr)
        for d in descr[k0:]:
            d["aircraft"] = ac


def sort_cases(chk, a, cases, descr):
    """Model/SegSort.v: the order of the left-hand segments of every wing, recomputed by the model from their tip distances handed over in
    the reverse order (distinct distances: the result does not depend on the order they are met in)"""
    for wi, wing in enumerate(a._segments_in_wings):
        left = [s_ for s_ in wing if s_.side == "left"]
        if not left:
            continue
        norms = []
        for s_ in left:
            tip = s_.get_tip_loc()
            norms.append(math.sqrt(float(tip[1]) * float(tip[1]) + float(tip[2]) * float(tip[2])))
        if len(set(norms)) < len(norms):
            continue
        order = list(range(len(left)))[::-1]
        cases.append("chk_sort_left [%s] [%s]" % ("; ".join("(%d%%nat, %s)" % (k_, fhex(norms[k_])) for k_ in order),
                                                 "; ".join("%d%%nat" % k_ for k_ in range(len(left)))))
        descr.append(dict(what="left-segment-order", wing=wi, segments=[s_.name for s_ in left], tip_distances=norms))
        chk.count("left-segment-order=%d" % len(left))


# ------------------------------------------------------------------ effective lifting lines and joints (Model/Reid.v)
def ft3(v):
    return "(%s, %s, %s)" % (fhex(v[0]), fhex(v[1]), fhex(v[2]))


def cv3(v):
    return "(V3 %s %s %s)" % (fhex(v[0]), fhex(v[1]), fhex(v[2]))


def reid_cases(chk, a, cases, descr, rng):
    cur = 0
    info = {}
    for wi in range(a._num_wings):
        for seg in a._segments_in_wings[wi]:
            sig = (2.0 / (seg.b * seg.blend_dist * np.cos(seg.sweep_cp))) ** 2
            cs0 = float(np.cos(np.array([float(seg.sweep_cp[0])]))[0])
            cases.append("chk_sigma %s %s %s %s" % (fhex(seg.b), fhex(seg.blend_dist), fhex(cs0), fhex(sig[0])))
            descr.append(dict(what="blending-parameter", segment=seg.name))
            for k in range(seg.N):
                info[cur + k] = dict(sig=float(sig[k]), reid=bool(seg.reid_corr), dj=float(seg.delta_joint))
            cur += seg.N
    # span coordinate from the left tip, wing by wing (Model/Gather.v)
    for wi in range(a._num_wings):
        ws = a.wing_slices[wi]
        segs = "[" + "; ".join("mk_segsp %s %s %s %s" % (cbool(seg.side == "left"), fhex(seg.b), flist(seg.node_span_locs), flist(seg.cp_span_locs))
                               for seg in a._segments_in_wings[wi]) + "]"
        cases.append("chk_wing_spans %s %s %s %s" % (segs, flist(a.PC_span_locs[ws]), flist(a.P0_span_locs[ws]), flist(a.P1_span_locs[ws])))
        descr.append(dict(what="span-coordinates", wing=wi, segments=[seg.name for seg in a._segments_in_wings[wi]]))
    scale = max(1.0, float(np.max(np.abs(a.P0))), float(np.max(np.abs(a.P1))))
    atol = 1e-9 * scale
    for wi in range(a._num_wings):
        ws = a.wing_slices[wi]
        idx = list(range(ws.start, ws.stop))
        secs = "[" + "; ".join("mk_sec %s %s %s %s %s %s %s %s %s %s %s %s %s" % (
            cv3(a.PC[j]), fhex(a.PC_span_locs[j]), cv3(a.P0[j]), fhex(a.P0_span_locs[j]), cv3(a.P1[j]), fhex(a.P1_span_locs[j]), cv3(a.u_s[j]),
            cv3(a.u_a_unswept[j]), fhex(a.P0_chord[j]), fhex(a.P1_chord[j]), fhex(info[j]["dj"]), fhex(info[j]["sig"]), cbool(info[j]["reid"])) for j in idx) + "]"
        rows = rng.sample(idx, min(3, len(idx)))
        for i in rows:
            args = {}
            if info[i]["reid"]:
                for arr in (a.P0_span_locs, a.P1_span_locs, a.PC_span_locs):
                    for j in idx:
                        ds = float(arr[j]) - float(a.PC_span_locs[i])
                        x = (-info[i]["sig"]) * ds * ds
                        args[float(x).hex()] = x
            te = [(x, float(np.exp(np.array([x]))[0])) for x in args.values()]
            cases.append("chk_reid_row %s %s %s %d%%nat %s %s %s %s" % (
                ftable(te), fhex(atol), secs, i - ws.start, ftrip(a.P0_eff[i, ws]), ftrip(a.P1_eff[i, ws]), ftrip(a.P0_joint_eff[i, ws]),
                ftrip(a.P1_joint_eff[i, ws])))
            descr.append(dict(what="effective-lifting-line", wing=wi, control_point=i, reid=info[i]["reid"], sections=len(idx)))
            chk.count("reid-row=%s" % info[i]["reid"])
            # sections of the other wings, as this control point sees them
            others = [j for j in range(a.N) if j < ws.start or j >= ws.stop]
            if others:
                for nodes, chords, uas, got in ((a.P0, a.P0_chord, a.P0_u_a, a.P0_joint_eff), (a.P1, a.P1_chord, a.P1_u_a, a.P1_joint_eff)):
                    rws = "[" + "; ".join("(%s, %s, %s, %s, %s)" % (ft3(nodes[j]), fhex(chords[j]), fhex(info[j]["dj"]),
                                                                   cbool(info[j]["reid"] and info[i]["reid"]), ft3(uas[j])) for j in others) + "]"
                    cases.append("chk_joint_actual %s %s %s" % (fhex(atol), rws, ftrip([got[i, j] for j in others])))
                    descr.append(dict(what="joints-of-other-wings", control_point=i))

# ------------------------------------------------------------------ independent statement of the documented curve
def dist_value(d, s, default=0.0):
    """value of a constant / table distribution at span fraction s (piecewise linear, right-continuous at repeated nodes)"""
    if d is None:
        return default
    if isinstance(d, (int, float)):
        return float(d)
    xs, ys = [r[0] for r in d], [r[1] for r in d]
    return float(np.interp(s, xs, ys))


def breakpoints(w):
    bp = {0.0, 1.0}
    for k in ("sweep", "dihedral"):
        if isinstance(w.get(k), list):
            bp |= {float(r[0]) for r in w[k]}
    return sorted(bp)


def qc_point(w, side, root, s):
    """quarter-chord point of the documented curve at span fraction s"""
    from scipy.integrate import quad
    if "quarter_chord_locs" in w:
        pts = np.array([[0.0, 0.0, 0.0]] + [list(p) for p in w["quarter_chord_locs"]], dtype=float)
        seglen = np.sqrt(np.diff(pts[:, 1]) ** 2 + np.diff(pts[:, 2]) ** 2)
        frac = np.concatenate([[0.0], np.cumsum(seglen)]) / np.sum(seglen)
        p = np.array([np.interp(s, frac, pts[:, k]) for k in range(3)])
        if side == "left":
            p[1] = -p[1]
        return root + p
    b = w["semispan"]
    bps = breakpoints(w)
    out = np.zeros(3)
    ysign = -1.0 if side == "left" else 1.0
    for a, c in zip(bps[:-1], bps[1:]):
        if s <= a:
            break
        hi = min(s, c)
        eps = 1e-12

        def sw(t):
            t = min(max(t, a + eps), c - eps)
            return math.radians(dist_value(w.get("sweep"), t))

        def di(t):
            t = min(max(t, a + eps), c - eps)
            return math.radians(dist_value(w.get("dihedral"), t))
        out[0] += -b * quad(lambda t: math.tan(sw(t)), a, hi)[0]
        out[1] += ysign * b * quad(lambda t: math.cos(di(t)), a, hi)[0]
        out[2] += -b * quad(lambda t: math.sin(di(t)), a, hi)[0]
    return root + out


def expected_root(ac, name, side, cache):
    """attachment point: origin, or the parent's root / tip on the same side, plus (dx, dy, dz) with the y offset mirrored"""
    w = ac["wings"][name]
    c = w.get("connect_to", {})
    pid = c.get("ID", 0)
    if pid == 0:
        base = np.zeros(3)
    else:
        pname = [n for n, ww in ac["wings"].items() if ww["ID"] == pid][0]
        pw = ac["wings"][pname]
        pside = side if pw.get("side", "both") == "both" else pw["side"]
        proot = expected_root(ac, pname, pside, cache)
        if c.get("location", "tip") == "root":
            # the parent's root with its own y offset removed
            base = proot.copy()
            yo = pw.get("connect_to", {}).get("y_offset", 0.0)
            base[1] += yo if pside == "left" else -yo
        else:
            base = qc_point(pw, pside, proot, 1.0)
    delta = np.array([c.get("dx", 0.0), c.get("dy", 0.0), c.get("dz", 0.0)], dtype=float)
    yo = c.get("y_offset", 0.0)
    delta[1] += -yo if side == "left" else yo
    return base + delta


def geometry_oracle(chk, ac, a):
    """nodes / control points lie on the documented curve; section quantities equal the interpolated inputs"""
    # the two halves of a two-sided segment carry mirror-image section angles: dihedral_left = -dihedral_right station by station
    # (whatever way the description was given - also quarter-chord points, where the angle is derived from the curve), twist equal
    by_name = {seg.name: seg for seg in a.segments}
    for nm, seg in by_name.items():
        if nm.endswith("_left") and nm[:-5] + "_right" in by_name:
            rt = by_name[nm[:-5] + "_right"]
            if seg.N == rt.N and abs(getattr(seg, "y_offset", 0.0)) == abs(getattr(rt, "y_offset", 0.0)):
                if not np.allclose(np.array(seg.dihedral_cp)[::-1], -np.array(rt.dihedral_cp), rtol=0, atol=1e-9):
                    return "mirror-angles:dihedral", dict(segment=nm, left=np.array(seg.dihedral_cp).tolist(), right=np.array(rt.dihedral_cp).tolist())
                if not np.allclose(np.array(seg.sweep_cp)[::-1], -np.array(rt.sweep_cp), rtol=0, atol=1e-6):
                    return "mirror-angles:sweep", dict(segment=nm, left=np.array(seg.sweep_cp).tolist(), right=np.array(rt.sweep_cp).tolist())
                if not np.allclose(np.array(seg.twist_cp)[::-1], np.array(rt.twist_cp), rtol=0, atol=1e-9):
                    return "mirror-angles:twist", dict(segment=nm, left=np.array(seg.twist_cp).tolist(), right=np.array(rt.twist_cp).tolist())
                # the lifting line itself (offset from the quarter chord included): left = mirror image of right, relative to the two roots
                for arrn in ("nodes", "control_points"):
                    dl = (np.array(getattr(seg, arrn), dtype=float) - np.array(seg.get_root_loc(), dtype=float))[::-1]
                    dr = np.array(getattr(rt, arrn), dtype=float) - np.array(rt.get_root_loc(), dtype=float)
                    if not np.allclose(dl * np.array([1.0, -1.0, 1.0]), dr, rtol=0, atol=1e-9 * max(1.0, float(np.max(np.abs(dr))))):
                        return "mirror-line:" + arrn, dict(segment=nm, left_relative_to_root=dl.tolist(), right_relative_to_root=dr.tolist(),
                                                           ll_offset=ac["wings"][nm[:-5]].get("ll_offset", 0.0))
    for seg in a.segments:
        name = seg.name.rsplit("_", 1)[0]
        w = ac["wings"][name]
        side = seg.side
        root = expected_root(ac, name, side, {})
        tol = 2e-8 * max(1.0, float(np.max(np.abs(seg.nodes))))
        off = w.get("ll_offset", 0.0)
        for arr, spans, what in ((seg.nodes, seg.node_span_locs, "nodes"), (seg.control_points, seg.cp_span_locs, "control_points")):
            for p, s in zip(arr, spans):
                q = qc_point(w, side, root, float(s))
                d = np.array(p, dtype=float) - q
                if isinstance(off, (int, float)) and off == 0.0:
                    if np.linalg.norm(d) > tol:
                        return "curve:%s:%s" % (what, side), dict(segment=seg.name, span=float(s), got=np.array(p).tolist(), expected=q.tolist())
                elif isinstance(off, (int, float)):
                    chord = chord_value(w, float(s))
                    if abs(np.linalg.norm(d) - abs(off) * chord) > 1e-7 * max(1.0, chord) or (chord > 1e-6 and (off > 0) != (d[0] < 0)):
                        return "ll_offset:%s" % side, dict(segment=seg.name, span=float(s), displacement=d.tolist(), offset=off, chord=chord)
        # section quantities
        sgn_d = -1.0 if side == "right" else 1.0
        sgn_s = -1.0 if side == "left" else 1.0
        for i, s in enumerate(seg.cp_span_locs):
            s = float(s)
            if "quarter_chord_locs" not in w:
                ed = sgn_d * math.radians(dist_value(w.get("dihedral"), s))
                es = sgn_s * math.radians(dist_value(w.get("sweep"), s))
                if abs(seg.dihedral_cp[i] - ed) > 1e-9 or abs(seg.sweep_cp[i] - es) > 1e-9:
                    return "section-angles:%s" % side, dict(segment=seg.name, span=s, dihedral=float(seg.dihedral_cp[i]), expected_dihedral=ed,
                                                            sweep=float(seg.sweep_cp[i]), expected_sweep=es)
            else:
                # the section angle of a curve given by points is the direction of the piece the section lies on (away from the corners,
                # where the documented finite difference straddles two pieces): outboard 0, straight up 90 deg, back inboard 180 deg
                pts = np.array([[0.0, 0.0, 0.0]] + [list(p_) for p_ in w["quarter_chord_locs"]], dtype=float)
                seglen = np.sqrt(np.diff(pts[:, 1]) ** 2 + np.diff(pts[:, 2]) ** 2)
                frac = np.concatenate([[0.0], np.cumsum(seglen)]) / np.sum(seglen)
                k_ = int(np.searchsorted(frac, s, side="right")) - 1
                if 0 <= k_ < len(seglen) and frac[k_] + 0.011 < s < frac[k_ + 1] - 0.011:
                    ed = sgn_d * math.atan2(-(pts[k_ + 1, 2] - pts[k_, 2]), pts[k_ + 1, 1] - pts[k_, 1])
                    if abs(math.cos(seg.dihedral_cp[i]) - math.cos(ed)) > 1e-7 or abs(math.sin(seg.dihedral_cp[i]) - math.sin(ed)) > 1e-7:
                        return "section-angles-from-points:%s" % side, dict(segment=seg.name, span=s, dihedral=float(seg.dihedral_cp[i]), expected_dihedral=ed)
            et = math.radians(dist_value(w.get("twist"), s))
            if abs(seg.twist_cp[i] - et) > 1e-9:
                return "twist:%s" % side, dict(segment=seg.name, span=s, twist=float(seg.twist_cp[i]), expected=et)
        for arrn in ("twist_cp", "dihedral_cp", "sweep_cp", "c_bar_cp", "dS", "nodes", "control_points", "u_a_cp", "u_n_cp", "u_s_cp"):
            if not np.all(np.isfinite(getattr(seg, arrn))):
                return "non-finite:%s:%s" % (arrn, side), dict(segment=seg.name, array=arrn)
        # grid: monotone 0..1, one control point strictly between consecutive nodes
        ns = np.array(seg.node_span_locs if side != "left" else seg.node_span_locs[::-1], dtype=float)
        cs = np.array(seg.cp_span_locs if side != "left" else seg.cp_span_locs[::-1], dtype=float)
        starved = False
        if w.get("grid", {}).get("distribution", "cosine_cluster") == "cosine_cluster":
            Ng, dsc, rnd = mirror_alloc(w)
            dff = int(sum(rnd) - Ng)
            if rnd[0] - dff >= 0:
                rnd[0] -= dff
            else:
                for _ in range(dff):
                    rnd[rnd.index(max(rnd))] -= 1
            starved = any(r <= 0 for r in rnd)      # MachUpX warns: a cluster interval received no control points
        if starved:
            pass
        elif len(ns) != seg.N + 1 or len(cs) != seg.N or ns[0] != 0.0 or abs(ns[-1] - 1.0) > 1e-15 or np.any(np.diff(ns) <= 0) or \
                np.any(cs <= ns[:-1]) or np.any(cs >= ns[1:]):
            return "grid:%s" % side, dict(segment=seg.name, nodes=ns.tolist(), cps=cs.tolist())
        # chord and area
        for i in range(seg.N):
            c0, c1 = chord_value(w, float(ns[i])), chord_value(w, float(ns[i + 1]))
            j = i if side != "left" else seg.N - 1 - i
            if abs(seg.c_bar_cp[j] - 0.5 * (c0 + c1)) > 1e-9 * max(1.0, c0):
                return "section-chord:%s" % side, dict(segment=seg.name, index=j, got=float(seg.c_bar_cp[j]), expected=0.5 * (c0 + c1))
        ch = w.get("chord", 1.0)
        if not (isinstance(ch, list) and ch and ch[0] == "elliptic"):
            from scipy.integrate import quad
            bps = sorted({0.0, 1.0} | ({float(r[0]) for r in ch} if isinstance(ch, list) else set()) | set(ns.tolist()))
            integral = sum(quad(lambda t: chord_value(w, t), x0, x1)[0] for x0, x1 in zip(bps[:-1], bps[1:]))
            if abs(float(np.sum(seg.dS)) - seg.b * integral) > 1e-7 * seg.b * integral and set(bps) == set(ns.tolist()):
                return "area:%s" % side, dict(segment=seg.name, sum_dS=float(np.sum(seg.dS)), b_times_integral=seg.b * integral)
    return None, None


def chord_value(w, s):
    ch = w.get("chord", 1.0)
    if isinstance(ch, list) and ch and ch[0] == "elliptic":
        return ch[1] * math.sqrt(max(0.0, 1 - s * s))
    return dist_value(ch, s)


def run(chk):
    MX = common.setup_env()
    chk.proofs(extra_trusted=[
        "correspondence: Model/Grid.v on binary64 vs WingSegment.node_span_locs / cp_span_locs (bit-exact, np.cos as oracle table), c_bar_cp, dS, "
        "and Airplane.S_w / l_ref_lon / l_ref_lat",
        "correspondence: Model/QCurve.v on binary64 vs get_twist / get_dihedral / get_sweep (bit-exact), _discont (bit-exact), _get_quarter_chord_loc at all "
        "nodes and control points (quad values of the model's integrands supplied per pair of limits; 2^-40), get_root_loc from the parent's attachment point, "
        "nodes / control_points from quarter-chord point, ll_offset, chord and section angles",
        "independent oracle for the quarter-chord curve: scipy.quad integration of the documented curve (dx/ds=-b tan(sweep), dihedral rotating the "
        "span direction, connection point with mirrored y offset) written separately from the implementation",
        "correspondence: Model/Kuchemann.v on binary64 vs the stored table of Kuchemann offsets (bit-exact; cos, tan, float power as oracles); dihedral and sweep derived from quarter-chord points (bit-exact; arctan2, arctan, scalar square as oracles)", "correspondence: Model/Swept.v on binary64 vs the swept unit vectors stored at the nodes (_u_a_dist, _u_n_dist, _u_s_dist) and at the control points (u_a_cp, u_n_cp, u_s_cp; 2^-30), Model/SegSort.v vs the order of the left-hand segments, Model/LoadOrder.v vs the order in which the segments of a shuffled \"wings\" dictionary are attached, Model/Wings.v vs the grouping of the half-segments into wings (_segments_in_wings, _num_wings, wing_ID) on the generated aircraft and on random segment trees", "not modelled: callables; scipy.integrate.quad is an oracle"])
    rng = chk.rng
    cases, descr = [], []
    n = chk.q(40, 400)
    for it in range(n):
        ac = gen.gen_aircraft(rng, chk.hist, max_wings=3, sides=("both", "both", "left", "right"), qc_points_p=0.25, N=None)
        if it == 0:
            # few control points, a very short first clustering section and an extra cluster point: the rounded section counts
            # exceed N by more than the root section holds (documented outcome: a warning about a section without control points)
            ac = gen.simple_wing_aircraft(N=4, reid=False)
            ac["wings"]["main_wing"]["grid"]["cluster_points"] = [0.41]
            ac["wings"]["main_wing"]["control_surface"].update(root_span=0.01, tip_span=0.8)
        if it == 1:
            # connection options that a random draw may miss: a main wing with a lateral offset of its halves and of the whole wing, a tail and a
            # fin attached at its root (they must not inherit the offset of the halves), an outer panel at its tip, a lifting-line offset on the parent
            ac = gen.simple_wing_aircraft(N=4, reid=True, sweep=12.0, dihedral=4.0)
            ac["wings"]["main_wing"]["connect_to"] = {"ID": 0, "dx": 0.3, "dy": 0.25, "dz": -0.1, "y_offset": 0.4}
            ac["wings"]["main_wing"]["ll_offset"] = 0.06
            ac["wings"]["outer"] = {"ID": 4, "side": "both", "is_main": True, "connect_to": {"ID": 1, "location": "tip", "dx": -0.05}, "semispan": 1.5,
                                    "chord": [[0.0, 0.8], [1.0, 0.4]], "sweep": 20.0, "dihedral": 25.0, "airfoil": "af0", "grid": {"N": 3, "reid_corrections": True}}
            ac["wings"]["h_stab"]["connect_to"]["y_offset"] = 0.15
        if it == 2:
            # quarter-chord points that do not simply run outboard: a C-wing (outboard, up, back inboard), a left-hand vertical fin given by
            # its tip point and connected to the root of the aircraft origin, a right-hand ventral fin
            ac = gen.simple_wing_aircraft(N=4, reid=False, controls=False)
            mw = ac["wings"]["main_wing"]
            mw.pop("semispan")
            mw["quarter_chord_locs"] = [[0.0, 4.0, 0.0], [-0.1, 4.0, -1.0], [-0.2, 3.0, -1.0]]
            mw["grid"] = {"N": 6, "reid_corrections": False, "cluster_points": [round(4.0 / 6.0, 12), round(5.0 / 6.0, 12)]}
            vs = ac["wings"]["v_stab"]
            vs.pop("semispan"); vs.pop("dihedral")
            vs.update(side="left", quarter_chord_locs=[[-0.2, 0.0, -1.2]], connect_to={"ID": 0, "location": "root", "dx": -3.0, "dz": -0.1})
            ac["wings"]["ventral"] = dict(copy.deepcopy(vs), ID=4, side="right", quarter_chord_locs=[[0.0, 0.0, 0.6]],
                                          connect_to={"ID": 0, "location": "root", "dx": -3.0, "dz": 0.1})
        if it == 3:
            # the lifting line on Kuchemann's locus of aerodynamic centres, on a swept two-sided wing and a swept one-sided fin
            ac = gen.simple_wing_aircraft(N=5, reid=True, sweep=25.0, dihedral=3.0)
            ac["wings"]["main_wing"]["ll_offset"] = "kuchemann"
            ac["wings"]["v_stab"].update(sweep=30.0, ll_offset="kuchemann", side="left")
            chk.count("forced=kuchemann")
        try:
            sc = gen.build_scene(MX, {"scene": {"atmosphere": {"rho": 0.0023769}}}, [("a", ac, {"velocity": 50.0}, {})])
        except Exception as e:
            chk.violation("build-raises:" + type(e).__name__, dict(kind="geometry", aircraft=ac, error=repr(e)))
            continue
        a = sc._airplanes["a"]
        for seg in a.segments:
            grid_cases(chk, seg, ac["wings"][seg.name.rsplit("_", 1)[0]], cases, descr)
        qcurve_cases(chk, ac, a, cases, descr)
        reid_cases(chk, a, cases, descr, rng)
        sort_cases(chk, a, cases, descr)
        wing_group_cases(chk, a, cases, descr)
        swept_cases(chk, a, cases, descr)
        # reference quantities
        ref = ac.get("reference", {})
        opt = lambda k: ("(Some %s)" % fhex(ref[k])) if k in ref else "None"
        segs = "[" + "; ".join("(%s, %s, %s, %s)" % (cbool(s.is_main), cbool(s.side == "right" or not s.has_mirror), fhex(s.b), fhex(float(np.sum(s.dS))))
                               for s in a.wing_segments.values()) + "]"
        cases.append("chk_refs %s %s %s %s %s %s %s" % (opt("area"), opt("lateral_length"), opt("longitudinal_length"), segs, fhex(a.S_w),
                                                       fhex(a.l_ref_lon), fhex(a.l_ref_lat)))
        descr.append(dict(what="reference-defaults", explicit=sorted(ref)))
        sig, det = geometry_oracle(chk, ac, a)
        chk.case(dict(wings={k: dict(side=w.get("side"), qc="quarter_chord_locs" in w, grid=w["grid"].get("distribution", "cosine_cluster") if isinstance(w["grid"].get("distribution", ""), str) else "explicit",
                                     connect=w.get("connect_to", {}).get("location", "-")) for k, w in ac["wings"].items()}, it=it), nontrivial=True)
        if sig:
            chk.violation(sig, dict(kind="geometry", aircraft=ac, what=sig, detail=det))
            continue
        # what the API reports
        try:
            d = sc.distributions()["a"]
        except Exception as e:
            if type(e).__name__ == "SolverNotConvergedError":
                chk.count("distributions_nonconverged")
                continue
            raise
        # the degree listing (radians=False) is the same geometry: every angular column is the radian column in degrees, every other
        # geometric column is unchanged
        try:
            ddeg = sc.distributions(radians=False)["a"]
        except Exception as e:
            ddeg = None
            if type(e).__name__ != "SolverNotConvergedError":
                chk.violation("distributions-degrees-raises", dict(kind="geometry", aircraft=ac, error=repr(e)))
        for seg in (a.segments if ddeg is not None else []):
            dr, dg = d[seg.name], ddeg[seg.name]
            for key in ("twist", "dihedral", "sweep", "aero_sweep", "section_aL0", "alpha", "delta_flap"):
                if key in dr and not np.allclose(np.array(dg[key], dtype=float), np.degrees(np.array(dr[key], dtype=float)), rtol=1e-9, atol=1e-9):
                    chk.violation("distributions-degrees:" + key, dict(kind="geometry", aircraft=ac, segment=seg.name, column=key, radians=dr[key], degrees=dg[key]))
            for key in ("span_frac", "cpx", "cpy", "cpz", "chord", "swept_chord", "area"):
                if key in dr and not np.allclose(np.array(dg[key], dtype=float), np.array(dr[key], dtype=float), rtol=1e-12, atol=0):
                    chk.violation("distributions-degrees:" + key, dict(kind="geometry", aircraft=ac, segment=seg.name, column=key, radians=dr[key], degrees=dg[key]))
        for seg in a.segments:
            dd = d[seg.name]
            if not (np.allclose(dd["span_frac"], seg.cp_span_locs) and np.allclose(dd["area"], seg.dS) and np.allclose(dd["twist"], seg.twist_cp)
                    and np.allclose(dd["dihedral"], seg.dihedral_cp) and np.allclose(dd["sweep"], seg.sweep_cp)
                    and np.allclose(np.array([dd["cpx"], dd["cpy"], dd["cpz"]]).T, seg.control_points)):
                chk.violation("distributions-geometry", dict(kind="geometry", aircraft=ac, segment=seg.name))
            # "chord" is the section's geometric chord (mean of its node chords, already checked against the description above);
            # "swept_chord" is not larger (it is the chord seen normal to the swept lifting line)
            if not np.allclose(dd["chord"], seg.c_bar_cp, rtol=1e-9, atol=1e-12) or np.any(np.array(dd["swept_chord"]) > np.array(dd["chord"]) * (1 + 1e-12)):
                chk.violation("distributions-chord", dict(kind="geometry", aircraft=ac, segment=seg.name, reported=dd["chord"], swept=dd["swept_chord"],
                                                          mean_of_node_chords=np.array(seg.c_bar_cp).tolist()))
        S, lon, lat = sc.get_aircraft_reference_geometry()
        if not (math.isfinite(S) and math.isfinite(lon) and math.isfinite(lat) and S > 0 and lon > 0 and lat > 0):
            chk.violation("reference-not-finite", dict(kind="geometry", aircraft=ac, S=S, lon=lon, lat=lat))
    wing_tree_cases(chk, MX, chk.q(60, 600), cases, descr)
    failing, nfiles, errors = common.run_cases("C12", IMPORTS, [], cases)
    chk.cov["traces_validated_against_impl"] = len(cases)
    chk.cov["correspondence_cases"] = len(cases)
    if errors:
        chk.fail_obligation("correspondence:C12(case files do not compile)", "\n".join(errors)[-3000:])
    elif failing and not chk.violations:
        chk.fail_obligation("correspondence:Model/Grid.v:" + descr[failing[0]]["what"], json.dumps(dict(first=descr[failing[0]], n=len(failing)), default=str)[:3000])
    return chk.finish(rule="generated aircraft (1-3 surfaces; left/right/both; root/tip connections with offsets and y_offset; chains and winglets; "
                           "constant / linear / step / three-node sweep, dihedral, twist; constant / linear / elliptic chord; quarter-chord points in 25 %; "
                           "cosine grids with flap-edge and user cluster points, linear and explicit grids; N 3-7): every segment's grid, chords, areas, "
                           "reference quantities against the model and every node / control point against the independently integrated curve")


def replay(chk, path):
    print(json.dumps(json.load(open(path)), indent=1, default=str)[:3000])
    return 0
