"""C12 — generated lifting-line geometry reproduces the described wing."""
import math, copy, json
import numpy as np
from harness import common, gen, api
from harness.common import fhex, flist, ftable, cbool

LEVEL = "proof"
IMPORTS = ["From MuxV Require Import Base.Num Base.FInst Model.Grid Model.GridF."]


# ------------------------------------------------------------------ grid correspondence
def mirror_alloc(w):
    """the cluster points and the Python-rounded allocation of one segment description (wing_segment.py 126-168)"""
    g = w.get("grid", {})
    N = g.get("N", 40)
    discont = []
    if g.get("flap_edge_cluster", True) and w.get("control_surface") is not None:
        cs = w["control_surface"]
        discont += [cs.get("root_span", 0.0), cs.get("tip_span", 1.0)]
    discont += list(g.get("cluster_points", []))
    discont = [d for d in discont if d != 1.0 and d != 0.0]
    discont.sort()
    discont = [0.0] + discont + [1.0]
    rounded = [int(round(N * (discont[i + 1] - discont[i]))) for i in range(len(discont) - 1)]
    return N, discont, rounded


def grid_cases(chk, seg, w, cases, descr):
    g = w.get("grid", {})
    dist = g.get("distribution", "cosine_cluster")
    left = seg.side == "left"
    nodes, cps = [float(x) for x in seg.node_span_locs], [float(x) for x in seg.cp_span_locs]
    if dist == "cosine_cluster":
        N, discont, rounded = mirror_alloc(w)
        adj = list(rounded)
        diff = int(sum(rounded) - N)
        if adj[0] - diff >= 0:
            adj[0] -= diff
        else:                                   # root section too short: one at a time from the (first) longest section
            for _ in range(diff):
                adj[adj.index(max(adj))] -= 1
        cases.append("chk_alloc (%d)%%Z [%s] [%s]" % (N, "; ".join("(%d)%%Z" % r for r in rounded), "; ".join("(%d)%%Z" % r for r in adj)))
        descr.append(dict(what="alloc", N=N, discont=discont))
        ct = []
        secs = []
        for i, n in enumerate(adj):
            if n <= 0:
                continue
            for th in list(np.linspace(0.0, np.pi, n + 1))[1:]:
                ct.append((float(th), float(np.cos(th))))
            for th in np.linspace(np.pi / n, np.pi, n) - np.pi / (2 * n):
                ct.append((float(th), float(np.cos(th))))
            secs.append("(%s, %s, %d%%nat)" % (fhex(discont[i]), fhex(discont[i + 1]), n))
        cases.append("chk_grid %s %s %s [%s] %s %s" % (ftable(ct), fhex(np.pi), cbool(left), "; ".join(secs), flist(nodes), flist(cps)))
        descr.append(dict(what="cosine-grid", side=seg.side, discont=discont, alloc=adj))
    elif dist == "linear":
        cases.append("chk_linear_grid %s %d%%nat %s %s" % (cbool(left), seg.N, flist(nodes), flist(cps)))
        descr.append(dict(what="linear-grid", side=seg.side, N=seg.N))
    else:
        cases.append("chk_explicit_grid %s %s %s %s" % (cbool(left), flist(dist), flist(nodes), flist(cps)))
        descr.append(dict(what="explicit-grid", side=seg.side))
    node_chords = [float(x) for x in seg.get_chord(seg.node_span_locs)]
    cases.append("chk_areas %s %s %s %s %s" % (fhex(seg.b), flist(nodes), flist(node_chords), flist(seg.c_bar_cp), flist(seg.dS)))
    descr.append(dict(what="areas", side=seg.side))
    chk.count("grid=%s/%s" % (dist if isinstance(dist, str) else "explicit", seg.side))


# ------------------------------------------------------------------ independent statement of the documented curve
def dist_value(d, s, default=0.0):
    """value of a constant / table distribution at span fraction s (piecewise linear, right-continuous at repeated nodes)"""
    if d is None:
        return default
    if isinstance(d, (int, float)):
        return float(d)
    xs, ys = [r[0] for r in d], [r[1] for r in d]
    return float(np.interp(s, xs, ys))


def breakpoints(w):
    bp = {0.0, 1.0}
    for k in ("sweep", "dihedral"):
        if isinstance(w.get(k), list):
            bp |= {float(r[0]) for r in w[k]}
    return sorted(bp)


def qc_point(w, side, root, s):
    """quarter-chord point of the documented curve at span fraction s"""
    from scipy.integrate import quad
    if "quarter_chord_locs" in w:
        pts = np.array([[0.0, 0.0, 0.0]] + [list(p) for p in w["quarter_chord_locs"]], dtype=float)
        seglen = np.sqrt(np.diff(pts[:, 1]) ** 2 + np.diff(pts[:, 2]) ** 2)
        frac = np.concatenate([[0.0], np.cumsum(seglen)]) / np.sum(seglen)
        p = np.array([np.interp(s, frac, pts[:, k]) for k in range(3)])
        if side == "left":
            p[1] = -p[1]
        return root + p
    b = w["semispan"]
    bps = breakpoints(w)
    out = np.zeros(3)
    ysign = -1.0 if side == "left" else 1.0
    for a, c in zip(bps[:-1], bps[1:]):
        if s <= a:
            break
        hi = min(s, c)
        eps = 1e-12

        def sw(t):
            t = min(max(t, a + eps), c - eps)
            return math.radians(dist_value(w.get("sweep"), t))

        def di(t):
            t = min(max(t, a + eps), c - eps)
            return math.radians(dist_value(w.get("dihedral"), t))
        out[0] += -b * quad(lambda t: math.tan(sw(t)), a, hi)[0]
        out[1] += ysign * b * quad(lambda t: math.cos(di(t)), a, hi)[0]
        out[2] += -b * quad(lambda t: math.sin(di(t)), a, hi)[0]
    return root + out


def expected_root(ac, name, side, cache):
    """attachment point: origin, or the parent's root / tip on the same side, plus (dx, dy, dz) with the y offset mirrored"""
    w = ac["wings"][name]
    c = w.get("connect_to", {})
    pid = c.get("ID", 0)
    if pid == 0:
        base = np.zeros(3)
    else:
        pname = [n for n, ww in ac["wings"].items() if ww["ID"] == pid][0]
        pw = ac["wings"][pname]
        pside = side if pw.get("side", "both") == "both" else pw["side"]
        proot = expected_root(ac, pname, pside, cache)
        if c.get("location", "tip") == "root":
            # the parent's root with its own y offset removed
            base = proot.copy()
            yo = pw.get("connect_to", {}).get("y_offset", 0.0)
            base[1] += yo if pside == "left" else -yo
        else:
            base = qc_point(pw, pside, proot, 1.0)
    delta = np.array([c.get("dx", 0.0), c.get("dy", 0.0), c.get("dz", 0.0)], dtype=float)
    yo = c.get("y_offset", 0.0)
    delta[1] += -yo if side == "left" else yo
    return base + delta


def geometry_oracle(chk, ac, a):
    """nodes / control points lie on the documented curve; section quantities equal the interpolated inputs"""
    # the two halves of a two-sided segment carry mirror-image section angles: dihedral_left = -dihedral_right station by station
    # (whatever way the description was given - also quarter-chord points, where the angle is derived from the curve), twist equal
    by_name = {seg.name: seg for seg in a.segments}
    for nm, seg in by_name.items():
        if nm.endswith("_left") and nm[:-5] + "_right" in by_name:
            rt = by_name[nm[:-5] + "_right"]
            if seg.N == rt.N and abs(getattr(seg, "y_offset", 0.0)) == abs(getattr(rt, "y_offset", 0.0)):
                if not np.allclose(np.array(seg.dihedral_cp)[::-1], -np.array(rt.dihedral_cp), rtol=0, atol=1e-9):
                    return "mirror-angles:dihedral", dict(segment=nm, left=np.array(seg.dihedral_cp).tolist(), right=np.array(rt.dihedral_cp).tolist())
                if not np.allclose(np.array(seg.twist_cp)[::-1], np.array(rt.twist_cp), rtol=0, atol=1e-9):
                    return "mirror-angles:twist", dict(segment=nm, left=np.array(seg.twist_cp).tolist(), right=np.array(rt.twist_cp).tolist())
    for seg in a.segments:
        name = seg.name.rsplit("_", 1)[0]
        w = ac["wings"][name]
        side = seg.side
        root = expected_root(ac, name, side, {})
        tol = 2e-8 * max(1.0, float(np.max(np.abs(seg.nodes))))
        off = w.get("ll_offset", 0.0)
        for arr, spans, what in ((seg.nodes, seg.node_span_locs, "nodes"), (seg.control_points, seg.cp_span_locs, "control_points")):
            for p, s in zip(arr, spans):
                q = qc_point(w, side, root, float(s))
                d = np.array(p, dtype=float) - q
                if isinstance(off, (int, float)) and off == 0.0:
                    if np.linalg.norm(d) > tol:
                        return "curve:%s:%s" % (what, side), dict(segment=seg.name, span=float(s), got=np.array(p).tolist(), expected=q.tolist())
                elif isinstance(off, (int, float)):
                    chord = chord_value(w, float(s))
                    if abs(np.linalg.norm(d) - abs(off) * chord) > 1e-7 * max(1.0, chord) or (chord > 1e-6 and (off > 0) != (d[0] < 0)):
                        return "ll_offset:%s" % side, dict(segment=seg.name, span=float(s), displacement=d.tolist(), offset=off, chord=chord)
        # section quantities
        sgn_d = -1.0 if side == "right" else 1.0
        sgn_s = -1.0 if side == "left" else 1.0
        for i, s in enumerate(seg.cp_span_locs):
            s = float(s)
            if "quarter_chord_locs" not in w:
                ed = sgn_d * math.radians(dist_value(w.get("dihedral"), s))
                es = sgn_s * math.radians(dist_value(w.get("sweep"), s))
                if abs(seg.dihedral_cp[i] - ed) > 1e-9 or abs(seg.sweep_cp[i] - es) > 1e-9:
                    return "section-angles:%s" % side, dict(segment=seg.name, span=s, dihedral=float(seg.dihedral_cp[i]), expected_dihedral=ed,
                                                            sweep=float(seg.sweep_cp[i]), expected_sweep=es)
            et = math.radians(dist_value(w.get("twist"), s))
            if abs(seg.twist_cp[i] - et) > 1e-9:
                return "twist:%s" % side, dict(segment=seg.name, span=s, twist=float(seg.twist_cp[i]), expected=et)
        for arrn in ("twist_cp", "dihedral_cp", "sweep_cp", "c_bar_cp", "dS", "nodes", "control_points", "u_a_cp", "u_n_cp", "u_s_cp"):
            if not np.all(np.isfinite(getattr(seg, arrn))):
                return "non-finite:%s:%s" % (arrn, side), dict(segment=seg.name, array=arrn)
        # grid: monotone 0..1, one control point strictly between consecutive nodes
        ns = np.array(seg.node_span_locs if side != "left" else seg.node_span_locs[::-1], dtype=float)
        cs = np.array(seg.cp_span_locs if side != "left" else seg.cp_span_locs[::-1], dtype=float)
        starved = False
        if w.get("grid", {}).get("distribution", "cosine_cluster") == "cosine_cluster":
            Ng, dsc, rnd = mirror_alloc(w)
            dff = int(sum(rnd) - Ng)
            if rnd[0] - dff >= 0:
                rnd[0] -= dff
            else:
                for _ in range(dff):
                    rnd[rnd.index(max(rnd))] -= 1
            starved = any(r <= 0 for r in rnd)      # MachUpX warns: a cluster interval received no control points
        if starved:
            pass
        elif len(ns) != seg.N + 1 or len(cs) != seg.N or ns[0] != 0.0 or abs(ns[-1] - 1.0) > 1e-15 or np.any(np.diff(ns) <= 0) or \
                np.any(cs <= ns[:-1]) or np.any(cs >= ns[1:]):
            return "grid:%s" % side, dict(segment=seg.name, nodes=ns.tolist(), cps=cs.tolist())
        # chord and area
        for i in range(seg.N):
            c0, c1 = chord_value(w, float(ns[i])), chord_value(w, float(ns[i + 1]))
            j = i if side != "left" else seg.N - 1 - i
            if abs(seg.c_bar_cp[j] - 0.5 * (c0 + c1)) > 1e-9 * max(1.0, c0):
                return "section-chord:%s" % side, dict(segment=seg.name, index=j, got=float(seg.c_bar_cp[j]), expected=0.5 * (c0 + c1))
        ch = w.get("chord", 1.0)
        if not (isinstance(ch, list) and ch and ch[0] == "elliptic"):
            from scipy.integrate import quad
            bps = sorted({0.0, 1.0} | ({float(r[0]) for r in ch} if isinstance(ch, list) else set()) | set(ns.tolist()))
            integral = sum(quad(lambda t: chord_value(w, t), x0, x1)[0] for x0, x1 in zip(bps[:-1], bps[1:]))
            if abs(float(np.sum(seg.dS)) - seg.b * integral) > 1e-7 * seg.b * integral and set(bps) == set(ns.tolist()):
                return "area:%s" % side, dict(segment=seg.name, sum_dS=float(np.sum(seg.dS)), b_times_integral=seg.b * integral)
    return None, None


def chord_value(w, s):
    ch = w.get("chord", 1.0)
    if isinstance(ch, list) and ch and ch[0] == "elliptic":
        return ch[1] * math.sqrt(max(0.0, 1 - s * s))
    return dist_value(ch, s)


def run(chk):
    MX = common.setup_env()
    chk.proofs(extra_trusted=[
        "correspondence: Model/Grid.v on binary64 vs WingSegment.node_span_locs / cp_span_locs (bit-exact, np.cos as oracle table), c_bar_cp, dS, "
        "and Airplane.S_w / l_ref_lon / l_ref_lat",
        "independent oracle for the quarter-chord curve: scipy.quad integration of the documented curve (dx/ds=-b tan(sweep), dihedral rotating the "
        "span direction, connection point with mirrored y offset) written separately from the implementation",
        "not modelled: Kuchemann offset, section unit vectors from np.gradient (checked finite only), callables"])
    rng = chk.rng
    cases, descr = [], []
    n = chk.q(40, 400)
    for it in range(n):
        ac = gen.gen_aircraft(rng, chk.hist, max_wings=3, sides=("both", "both", "left", "right"), qc_points_p=0.25, N=None)
        if it == 0:
            # few control points, a very short first clustering section and an extra cluster point: the rounded section counts
            # exceed N by more than the root section holds (documented outcome: a warning about a section without control points)
            ac = gen.simple_wing_aircraft(N=4, reid=False)
            ac["wings"]["main_wing"]["grid"]["cluster_points"] = [0.41]
            ac["wings"]["main_wing"]["control_surface"].update(root_span=0.01, tip_span=0.8)
        try:
            sc = gen.build_scene(MX, {"scene": {"atmosphere": {"rho": 0.0023769}}}, [("a", ac, {"velocity": 50.0}, {})])
        except Exception as e:
            chk.violation("build-raises:" + type(e).__name__, dict(kind="geometry", aircraft=ac, error=repr(e)))
            continue
        a = sc._airplanes["a"]
        for seg in a.segments:
            grid_cases(chk, seg, ac["wings"][seg.name.rsplit("_", 1)[0]], cases, descr)
        # reference quantities
        ref = ac.get("reference", {})
        opt = lambda k: ("(Some %s)" % fhex(ref[k])) if k in ref else "None"
        segs = "[" + "; ".join("(%s, %s, %s, %s)" % (cbool(s.is_main), cbool(s.side == "right" or not s.has_mirror), fhex(s.b), fhex(float(np.sum(s.dS))))
                               for s in a.wing_segments.values()) + "]"
        cases.append("chk_refs %s %s %s %s %s %s %s" % (opt("area"), opt("lateral_length"), opt("longitudinal_length"), segs, fhex(a.S_w),
                                                       fhex(a.l_ref_lon), fhex(a.l_ref_lat)))
        descr.append(dict(what="reference-defaults", explicit=sorted(ref)))
        sig, det = geometry_oracle(chk, ac, a)
        chk.case(dict(wings={k: dict(side=w.get("side"), qc="quarter_chord_locs" in w, grid=w["grid"].get("distribution", "cosine_cluster") if isinstance(w["grid"].get("distribution", ""), str) else "explicit",
                                     connect=w.get("connect_to", {}).get("location", "-")) for k, w in ac["wings"].items()}, it=it), nontrivial=True)
        if sig:
            chk.violation(sig, dict(kind="geometry", aircraft=ac, what=sig, detail=det))
            continue
        # what the API reports
        try:
            d = sc.distributions()["a"]
        except Exception as e:
            if type(e).__name__ == "SolverNotConvergedError":
                chk.count("distributions_nonconverged")
                continue
            raise
        for seg in a.segments:
            dd = d[seg.name]
            if not (np.allclose(dd["span_frac"], seg.cp_span_locs) and np.allclose(dd["area"], seg.dS) and np.allclose(dd["twist"], seg.twist_cp)
                    and np.allclose(dd["dihedral"], seg.dihedral_cp) and np.allclose(dd["sweep"], seg.sweep_cp)
                    and np.allclose(np.array([dd["cpx"], dd["cpy"], dd["cpz"]]).T, seg.control_points)):
                chk.violation("distributions-geometry", dict(kind="geometry", aircraft=ac, segment=seg.name))
            # "chord" is the section's geometric chord (mean of its node chords, already checked against the description above);
            # "swept_chord" is not larger (it is the chord seen normal to the swept lifting line)
            if not np.allclose(dd["chord"], seg.c_bar_cp, rtol=1e-9, atol=1e-12) or np.any(np.array(dd["swept_chord"]) > np.array(dd["chord"]) * (1 + 1e-12)):
                chk.violation("distributions-chord", dict(kind="geometry", aircraft=ac, segment=seg.name, reported=dd["chord"], swept=dd["swept_chord"],
                                                          mean_of_node_chords=np.array(seg.c_bar_cp).tolist()))
        S, lon, lat = sc.get_aircraft_reference_geometry()
        if not (math.isfinite(S) and math.isfinite(lon) and math.isfinite(lat) and S > 0 and lon > 0 and lat > 0):
            chk.violation("reference-not-finite", dict(kind="geometry", aircraft=ac, S=S, lon=lon, lat=lat))
    failing, nfiles, errors = common.run_cases("C12", IMPORTS, [], cases)
    chk.cov["traces_validated_against_impl"] = len(cases)
    chk.cov["correspondence_cases"] = len(cases)
    if errors:
        chk.fail_obligation("correspondence:C12(case files do not compile)", "\n".join(errors)[-3000:])
    elif failing and not chk.violations:
        chk.fail_obligation("correspondence:Model/Grid.v:" + descr[failing[0]]["what"], json.dumps(dict(first=descr[failing[0]], n=len(failing)), default=str)[:3000])
    return chk.finish(rule="generated aircraft (1-3 surfaces; left/right/both; root/tip connections with offsets and y_offset; chains and winglets; "
                           "constant / linear / step / three-node sweep, dihedral, twist; constant / linear / elliptic chord; quarter-chord points in 25 %; "
                           "cosine grids with flap-edge and user cluster points, linear and explicit grids; N 3-7): every segment's grid, chords, areas, "
                           "reference quantities against the model and every node / control point against the independently integrated curve")


def replay(chk, path):
    print(json.dumps(json.load(open(path)), indent=1, default=str)[:3000])
    return 0
