"""C03 — rigid-motion invariance of body-frame results; exact quaternion algebra."""
import math, copy, json
import numpy as np
from harness import common, gen, api
from harness.common import fhex, fv3, fq4, ftable, ftable2

LEVEL = "proof"
IMPORTS = ["From MuxV Require Import Base.Num Base.Vec3 Base.FInst Model.Helpers Model.HelpersF."]


def _rand_float(rng, kind):
    if kind == "unit":
        return rng.uniform(-1, 1)
    if kind == "big":
        return rng.uniform(-1, 1) * 10 ** rng.randint(3, 150)
    if kind == "tiny":
        return rng.uniform(-1, 1) * 10 ** (-rng.randint(3, 320))
    if kind == "int":
        return float(rng.randint(-3, 3))
    return rng.gauss(0, 10)


def _rand_vec(rng, n):
    kind = rng.choice(["unit", "unit", "gauss", "big", "tiny", "int", "gauss"])
    return [_rand_float(rng, kind) for _ in range(n)], kind


def algebra_cases(chk, H, n):
    """Bit-exact model<->code cases for helpers.py; returns (cases, descriptions)."""
    rng = chk.rng
    cases, descr = [], []
    for i in range(n):
        op = rng.choice(["trans", "inv_trans", "trans_arr", "mult", "mult_v3", "conj", "normalize", "e2q", "q2e"])
        chk.count("algebra_op=" + op)
        if op in ("trans", "inv_trans"):
            q, kq = _rand_vec(rng, 4)
            if rng.random() < 0.5:
                nq = math.sqrt(sum(x * x for x in q)) or 1.0
                q = [x / nq for x in q]
                kq = "unitq"
            v, kv = _rand_vec(rng, 3)
            if i % 4 == 0:
                # the vector as a user's JSON file may carry it: whole numbers written as integers (the arithmetic is the same)
                v, kv = [rng.randint(-120, 120) for _ in range(3)], "integers"
            f = H.quat_trans if op == "trans" else H.quat_inv_trans
            try:
                e = f(np.array(q), np.array(v))
            except Exception as ex:
                chk.violation("algebra:%s:raises" % op, dict(kind="algebra", op=op, q=q, v=v, error=repr(ex)))
                continue
            cases.append("chk_%s %s %s %s" % (op, fq4(q), fv3(v), fv3(e)))
            descr.append(dict(op=op, q=q, v=v, kinds=[kq, kv]))
        elif op == "trans_arr":
            q, kq = _rand_vec(rng, 4)
            vs = [_rand_vec(rng, 3)[0] for _ in range(3)]
            which = rng.choice(["trans", "inv_trans"])
            f = H.quat_trans if which == "trans" else H.quat_inv_trans
            E = f(np.array(q), np.array(vs))
            cases.append(" && ".join("chk_%s %s %s %s" % (which, fq4(q), fv3(v), fv3(e)) for v, e in zip(vs, E)))
            descr.append(dict(op=op, which=which, q=q, vs=vs))
        elif op == "mult":
            a, _ = _rand_vec(rng, 4)
            b, _ = _rand_vec(rng, 4)
            e = H.quat_mult(np.array(a), np.array(b))
            cases.append("chk_mult %s %s %s" % (fq4(a), fq4(b), fq4(e)))
            descr.append(dict(op=op, a=a, b=b))
        elif op == "mult_v3":
            a, _ = _rand_vec(rng, 3)
            b, _ = _rand_vec(rng, 4)
            e = H.quat_mult(np.array(a), np.array(b))
            cases.append("chk_mult_v3l %s %s %s" % (fv3(a), fq4(b), fq4(e)))
            descr.append(dict(op=op, a=a, b=b))
        elif op == "conj":
            a, _ = _rand_vec(rng, 4)
            e = H.quat_conj(a)
            cases.append("chk_conj %s %s" % (fq4(a), fq4(e)))
            descr.append(dict(op=op, a=a))
        elif op == "normalize":
            a = [rng.gauss(0, 1) * rng.choice([1.0, 1e-3, 1e3]) for _ in range(4)]
            aa = np.array(a)
            e = aa / np.linalg.norm(aa)
            cases.append("chk_normalize %s %s" % (fq4(a), fq4(e)))
            descr.append(dict(op=op, a=a))
        elif op == "e2q":
            E = [rng.uniform(-math.pi, math.pi), rng.uniform(-math.pi / 2, math.pi / 2), rng.uniform(-math.pi, math.pi)]
            if rng.random() < 0.2:
                E[rng.randrange(3)] = rng.choice([0.0, math.pi / 2, -math.pi / 2, math.pi])
            e = H.euler_to_quat(np.array(E))
            cs = [(x / 2, float(np.cos(x / 2))) for x in E]
            sn = [(x / 2, float(np.sin(x / 2))) for x in E]
            cases.append("chk_e2q %s %s %s %s %s %s" % (ftable(cs), ftable(sn), fhex(E[0]), fhex(E[1]), fhex(E[2]), fq4(e)))
            descr.append(dict(op=op, E=E))
        else:
            if rng.random() < 0.15:   # gimbal lock branch: q0*q2-q1*q3 == +-0.5 exactly
                s = rng.choice([1.0, -1.0])
                q = [math.sqrt(0.5), 0.0, s * math.sqrt(0.5), 0.0]
                if q[0] * q[2] - q[1] * q[3] not in (0.5, -0.5):
                    q = [0.5, 0.5 * s, 0.5 * s, -0.5] if False else [1.0, 0.0, 0.5 * s, 0.0]
            else:
                q = api.rand_unit_quat(rng)
            q0, q1, q2, q3 = q
            quantity = q0 * q2 - q1 * q3
            at2, asn = [], []
            if quantity != 0.5 and quantity != -0.5:
                y1, x1 = 2 * (q0 * q1 + q2 * q3), q0 * q0 + q3 * q3 - q1 * q1 - q2 * q2
                y3, x3 = 2 * (q0 * q3 + q1 * q2), q0 * q0 + q1 * q1 - q2 * q2 - q3 * q3
                a2 = 2 * (q0 * q2 - q1 * q3)
                at2 = [(y1, x1, float(np.arctan2(y1, x1))), (y3, x3, float(np.arctan2(y3, x3)))]
                asn = [(a2, float(np.arcsin(a2)))]
                chk.count("q2e_branch=regular")
            else:
                a2 = q1 / np.cos(np.pi / 4)
                asn = [(float(a2), float(np.arcsin(a2)))]
                chk.count("q2e_branch=gimbal")
            e = H.quat_to_euler(np.array(q))
            cases.append("chk_q2e %s %s %s %s %s %s" % (ftable2(at2), ftable(asn), fhex(np.pi), fhex(np.cos(np.pi / 4)), fq4(q), fv3(e)))
            descr.append(dict(op=op, q=q))
    return cases, descr


def algebra_property_search(chk, H, n):
    """Direct test of the algebraic claims on the implementation (the failing-input search)."""
    rng = chk.rng
    worst = 0.0
    for i in range(n):
        q = np.array(api.rand_unit_quat(rng))
        p = np.array(api.rand_unit_quat(rng))
        v = np.array([rng.gauss(0, 10) for _ in range(3)])
        scale = np.linalg.norm(v) + 1e-300
        tests = {
            "there_and_back": np.linalg.norm(H.quat_inv_trans(q, H.quat_trans(q, v)) - v) / scale,
            "back_and_there": np.linalg.norm(H.quat_trans(q, H.quat_inv_trans(q, v)) - v) / scale,
            "length": abs(np.linalg.norm(H.quat_trans(q, v)) - np.linalg.norm(v)) / scale,
            "length_inv": abs(np.linalg.norm(H.quat_inv_trans(q, v)) - np.linalg.norm(v)) / scale,
            "composition": np.linalg.norm(H.quat_trans(H.quat_mult(p, q), v) - H.quat_trans(q, H.quat_trans(p, v))) / scale,
            "conj_inverse": np.linalg.norm(H.quat_trans(np.array(H.quat_conj(q)), v) - H.quat_inv_trans(q, v)) / scale,
            "matrix_form": np.linalg.norm(H.quat_inv_trans(q, v) - api.quat_inv_rot(q, v)) / scale,
        }
        E = np.array([rng.uniform(-3.1, 3.1), rng.uniform(-1.5, 1.5), rng.uniform(-3.1, 3.1)])
        tests["euler_roundtrip"] = float(np.max(np.abs(H.quat_to_euler(H.euler_to_quat(E)) - E)))
        tests["euler_unit"] = abs(np.linalg.norm(H.euler_to_quat(E)) - 1.0)
        for k, val in tests.items():
            worst = max(worst, val if val == val else 1.0)
            if not (val <= 1e-9):
                chk.violation("algebra:" + k, dict(kind="quaternion-algebra", law=k, q=q.tolist(), p=p.tolist(), v=v.tolist(),
                                                   E=E.tolist(), error=float(val), tol=1e-9))
                return False
    chk.cov["algebra_search_worst_rel_error"] = worst
    return True


# ------------------------------------------------------------------ scene-level sweep
def moved_state(st, P, Q):
    """Rigidly move the aircraft whose state dict is st: new orientation = Q∘q, position = P + R_Q p."""
    st2 = copy.deepcopy(st)
    o = st.get("orientation", [1.0, 0.0, 0.0, 0.0])
    q = api.euler_to_quat_deg(o) if len(o) == 3 else (np.array(o, dtype=float) / np.linalg.norm(o)).tolist()
    st2["orientation"] = api.quat_mult(Q, q)
    p = st.get("position", [0.0, 0.0, 0.0])
    st2["position"] = (np.array(P) + api.quat_inv_rot(Q, p)).tolist()
    return st2


def results_bundle(MX, sd, acs, what):
    sc = gen.build_scene(MX, sd, acs)
    out = {"forces": api.solve(sc, report_by_segment=True)}
    if "dist" in what:
        out["dist"] = api.body_dist(sc)
    if "derivs" in what:
        out["derivs"] = sc.derivatives(**api.ALL_FRAMES)
    if "trim" in what:
        try:
            out["trim"] = sc.pitch_trim(set_trim_state=False, verbose=False)
        except Exception as e:   # not trimmable: must be so in both poses
            out["trim"] = type(e).__name__
    if "ac" in what:
        out["ac"] = sc.aero_center()
    if "state" in what:
        # derivatives with respect to body velocity, body rates and body-axis attitude increments are attached to the aircraft;
        # those with respect to the Earth-fixed position components are not (the Earth axes are not carried along) and are left out
        sdv = sc.state_derivatives()
        out["state"] = {n: {k: v for k, v in d.items() if not k.endswith(("dx_f", "dy_f", "dz_f"))} for n, d in sdv.items()}
    return out


def rigid_sweep(chk, MX, n):
    rng = chk.rng
    done = 0
    attempts = 0
    far_done = False
    while done < n and attempts < 4 * n:
        attempts += 1
        # (enumerated: from the second scene on a formation is drawn until one has been moved far from the Earth-fixed origin)
        far = attempts >= 2 and not far_done
        multi = rng.random() < 0.25 or far
        sd = gen.gen_scene(rng, chk.hist, rho="const", wind=False)
        acs = []
        for k in range(2 if multi else 1):
            ac = gen.gen_aircraft(rng, chk.hist, max_wings=2 if multi else 3)
            st = gen.gen_state(rng, chk.hist, pose=multi)
            if multi and k == 1:
                st["position"] = [rng.uniform(-30, 30), rng.uniform(15, 40) * rng.choice([-1, 1]), rng.uniform(-20, 20)]
            if far:
                # a close formation (wingman a span to the side, a little behind and below), both level: the mutual induction is a visible part of the loads
                st.pop("orientation", None)
                st["position"] = [0.0, 0.0, 0.0] if k == 0 else [-5.0, 9.0, 1.0]
            acs.append(("ac%d" % k, ac, st, gen.gen_controls(rng, ac)))
        what = ["dist"]
        r_ = rng.random()
        if r_ < 0.25 and "elevator" in acs[0][1]["controls"] and not multi:
            what.append("trim")
        elif r_ < 0.55:
            what.append("derivs")
        elif r_ < 0.7:
            what.append("ac")
        elif r_ < 0.85 or (multi and r_ < 0.95):
            what.append("state")
        pm = 3e5 if far else rng.choice([1e3, 1e3, 1e5])      # "any position": also hundreds of thousands of feet from the origin
        P = [rng.uniform(-pm, pm), rng.uniform(0.5 * pm, pm) * rng.choice([-1, 1]), rng.uniform(-pm, pm)]
        Q = api.rand_unit_quat(rng)
        mode = rng.choice(["quat", "quat_scaled", "euler_equiv"])
        try:
            base = results_bundle(MX, sd, acs, what)
        except Exception as e:
            chk.count("sweep_base_error=" + type(e).__name__)
            continue
        if not api.all_finite(base["forces"]):
            chk.count("sweep_base_nonfinite")
            continue
        acs2 = []
        for name, ac, st, cs in acs:
            st2 = moved_state(st, P, Q)
            if mode == "quat_scaled":
                s = rng.choice([0.37, 5.0, 123.0])
                st2["orientation"] = [x * s for x in st2["orientation"]]
            elif mode == "euler_equiv" and abs(2 * (st2["orientation"][0] * st2["orientation"][2] - st2["orientation"][1] * st2["orientation"][3])) < 0.98:
                st2["orientation"] = api.quat_to_euler_deg(st2["orientation"])
            acs2.append((name, ac, st2, cs))
        descr = dict(mode=mode, multi=multi, what=what, P=P, Q=Q)
        try:
            moved = results_bundle(MX, sd, acs2, what)
        except Exception as e:
            chk.violation("rigid:raises", dict(kind="rigid-motion", scene=sd, aircraft=acs, moved=acs2, error=repr(e), **descr))
            return
        bad = api.compare(base, moved, rtol=2e-6, atol=2e-7)
        ang = 2 * math.degrees(math.acos(min(1.0, abs(Q[0]))))
        chk.case(dict(descr, n_aircraft=len(acs), rot_deg=round(ang, 2)), nontrivial=(ang > 1.0))
        chk.count("sweep_mode=" + mode)
        if far:
            far_done = True
            chk.count("sweep=formation-far-from-origin")
        for w in what:
            chk.count("sweep_what=" + w)
        if bad:
            chk.violation("rigid:" + bad[0][0].split("/")[0], dict(kind="rigid-motion", scene=sd, aircraft=acs, moved=acs2,
                                                                    differences=bad[:10], **descr))
            return
        done += 1
    # Euler angles vs the equivalent quaternion
    for i in range(max(3, n // 4)):
        sd = gen.gen_scene(rng, chk.hist, rho="const", wind=False)
        ac = gen.gen_aircraft(rng, chk.hist, max_wings=2)
        st = gen.gen_state(rng, chk.hist, pose=False)
        E = [rng.uniform(-170, 170), rng.uniform(-80, 80), rng.uniform(-170, 170)]
        st_e = dict(st, orientation=E)
        st_q = dict(st, orientation=api.euler_to_quat_deg(E))
        try:
            a = results_bundle(MX, sd, [("a", ac, st_e, {})], ["dist"])
            b = results_bundle(MX, sd, [("a", ac, st_q, {})], ["dist"])
        except Exception as e:
            chk.count("sweep_euler_error=" + type(e).__name__)
            continue
        bad = api.compare(a, b, rtol=2e-6, atol=2e-7)
        chk.case(dict(mode="euler_vs_quat", E=E))
        if bad:
            chk.violation("rigid:euler_vs_quat", dict(kind="euler-vs-quat", scene=sd, aircraft=ac, state_euler=st_e, state_quat=st_q,
                                                      differences=bad[:10]))
            return


def run(chk):
    MX = common.setup_env()
    import machupX.helpers as H
    chk.proofs(extra_trusted=[
        "correspondence: harness/props/C03.py evaluates Model/Helpers.v on binary64 (vm_compute) against machupX.helpers bit-exactly",
        "oracles: numpy cos/sin/arctan2/arcsin supplied as exact-argument tables; np.linalg.norm compared to 2 ulp",
        "modelled, not verified: NumPy/BLAS, libm, airfoil_db; scene-level invariance theorem rests on Model/Scene (see DESIGN)"])
    n = chk.q(1500, 12000)
    cases, descr = algebra_cases(chk, H, n)
    failing, nfiles, errors = common.run_cases("C03", IMPORTS, [], cases)
    chk.cov["traces_validated_against_impl"] = len(cases)
    chk.cov["correspondence_cases"] = len(cases)
    for d in descr[:3]:
        chk.cov["samples"].append(dict(correspondence=d))
    ok_alg = algebra_property_search(chk, H, chk.q(300, 3000))
    if errors:
        chk.fail_obligation("correspondence:Model/Helpers.v(case files do not compile)", "\n".join(errors)[-3000:])
    elif failing and ok_alg:
        d = descr[failing[0]]
        # model and code disagree, but no algebraic law was seen to fail
        chk.fail_obligation("correspondence:Model/Helpers.v:" + d["op"], json.dumps(dict(first_disagreement=d, n_disagreements=len(failing)), default=str))
    rigid_sweep(chk, MX, chk.q(24, 200))
    return chk.finish(
        rule="correspondence: random/adversarial (unit, huge, denormal, integer) quaternions and vectors per helper, bit-exact; "
             "sweep: generated aircraft (1-3 surfaces, 1-2 aircraft) solved at the base pose and at a random rigid motion "
             "(quaternion, scaled quaternion, Euler-equivalent); non-trivial = rotation > 1 deg; distinct by full case description")


def replay(chk, path):
    r = json.load(open(path))
    MX = common.setup_env()
    if r.get("kind") == "rigid-motion":
        what = r["what"]
        a = results_bundle(MX, r["scene"], [tuple(x) for x in r["aircraft"]], what)
        b = results_bundle(MX, r["scene"], [tuple(x) for x in r["moved"]], what)
        bad = api.compare(a, b, rtol=2e-6, atol=2e-7)
        print("differences:", bad[:10])
        if bad:
            print("VIOLATION property=C03 replay=%s" % path)
            return 1
        return 0
    print(json.dumps(r, indent=1)[:3000])
    return 0
