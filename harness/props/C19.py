"""C19 — inputs violating documented constraints are rejected, never silently computed."""
import math, copy, json, os, re, tempfile, shutil
import numpy as np
from harness import common, gen, api

LEVEL = "proof"

MSG = [
    (r"may not be 0", "EID0"), (r"not a proper side", "ESide"), (r"Either 'semispan'", "ESpanNeither"),
    (r"'semispan' and 'quarter_chord_locs'", "ESpanBoth"), (r"'dihedral' and 'quarter_chord_locs'", "EDihedralQC"),
    (r"'sweep' and 'quarter_chord_locs'", "ESweepQC"), (r"must be specified in 'airfoils'", "EAirfoil"),
    (r"length of 2\*N\+1", "EGridLen"), (r"begin at 0 and end at 1", "EGridEnds"), (r"monotonically", "EGridMono"),
    (r"Distribution type", "EGridType"), (r"Could not attach", "EParent"), (r"flap chord distribution", "EFlapChordEnds"),
    (r"No wing was specified as main", "ENoMain"), (r"not an allowable unit system", "EUnitSys"), (r"Improper units", "EUnitString"),
    (r"not an allowable profile", "EProfile"), (r"Key 'weight'", "EWeight"), (r"Key 'velocity'", "EVelocity"),
    (r"Alpha and beta are not allowed", "EAlphaBetaVector"), (r"angular rate frame", "ERateFrame"),
]


def classify(e):
    s = str(e)
    for pat, cls in MSG:
        if re.search(pat, s):
            return cls
    return None


# ----------------------------------------------------------------------------- abstraction of the input dictionaries (as the code reads them)
def cstr(s):
    return '"' + str(s).replace('"', '""') + '"'


def milli(x):
    return int(round(float(x) * 1000))


def unit_strings(d, keys):
    out = []
    for k in keys:
        v = d.get(k)
        if isinstance(v, list) and v and isinstance(v[-1], str) and not (k == "chord" and v[0] == "elliptic" and len(v) == 2):
            out.append(v[-1])
    return out


def abs_segment(w):
    g = w.get("grid", {})
    dist = g.get("distribution", "cosine_cluster")
    if isinstance(dist, list):
        grid = "(GList [%s]%%Z)" % "; ".join(str(milli(x)) for x in dist)
    elif dist == "cosine_cluster":
        grid = "GCosine"
    elif dist == "linear":
        grid = "GLinear"
    else:
        grid = "GOther"
    af = w.get("airfoil")
    afs = [af] if isinstance(af, str) else [row[1] for row in af]
    cs = w.get("control_surface")
    if cs is None:
        csurf = "None"
    else:
        cf = cs.get("chord_fraction", 0.25)
        ends = "None" if not isinstance(cf, list) else "(Some (%d, %d)%%Z)" % (milli(cf[0][0]), milli(cf[-1][0]))
        csurf = "(Some {| cs_root := %d; cs_tip := %d; cs_chord_ends := %s |})" % (milli(cs.get("root_span", 0.0)), milli(cs.get("tip_span", 1.0)), ends)
    return ("{| s_id := %d; s_side := %s; s_semispan := %s; s_qc := %s; s_sweep := %s; s_dihedral := %s; s_airfoils := [%s]; s_grid := %s; s_N := %d%%nat; "
            "s_parent := %d; s_main := %s; s_cs := %s; s_units := [%s] |}") % (
        w["ID"], cstr(w.get("side", "both")), common.cbool("semispan" in w), common.cbool("quarter_chord_locs" in w), common.cbool("sweep" in w),
        common.cbool("dihedral" in w), "; ".join(cstr(a) for a in afs), grid, g.get("N", 40), w.get("connect_to", {}).get("ID", 0),
        common.cbool(w.get("is_main", False)), csurf, "; ".join(cstr(u) for u in unit_strings(w, ("semispan", "chord"))))


def abs_state(st):
    v = st.get("velocity")
    if v is None:
        vf = "VMissing"
    elif isinstance(v, list) and len(v) == 3 and not isinstance(v[-1], str):
        vf = "VVector"
    else:
        vf = "VScalar"
    return "{| st_velocity := %s; st_alpha := %s; st_beta := %s; st_rate_frame := %s; st_units := [%s] |}" % (
        vf, common.cbool("alpha" in st), common.cbool("beta" in st), cstr(st.get("angular_rate_frame", "body")),
        "; ".join(cstr(u) for u in unit_strings(st, ("velocity",))))


def abs_aircraft(ac, st):
    ref = ac.get("reference", {})
    return ("{| a_weight := %s; a_airfoils := [%s]; a_segments := [%s]; a_ref_area := %s; a_ref_lon := %s; a_ref_lat := %s; a_state := %s |}") % (
        common.cbool("weight" in ac), "; ".join(cstr(a) for a in ac.get("airfoils", {})), "; ".join(abs_segment(w) for w in ac.get("wings", {}).values()),
        common.cbool("area" in ref), common.cbool("longitudinal_length" in ref), common.cbool("lateral_length" in ref), abs_state(st))


def abs_scene(sd, acs):
    atm = sd.get("scene", {}).get("atmosphere", {})
    profiles = [atm[k] for k in ("rho", "viscosity", "speed_of_sound") if isinstance(atm.get(k), str)]
    return "{| sc_units := %s; sc_solver := %s; sc_profiles := [%s]; sc_aircraft := [%s] |}" % (
        cstr(sd.get("units", "English")), cstr(sd.get("solver", {}).get("type", "nonlinear")), "; ".join(cstr(p) for p in profiles),
        "; ".join(abs_aircraft(ac, st) for _, ac, st, _ in acs))


# ----------------------------------------------------------------------------- catalogue of single violations / valid variants
def wing_names(ac):
    return list(ac["wings"].keys())


def pick_wing(rng, ac, pred=lambda w: True):
    c = [n for n in ac["wings"] if pred(ac["wings"][n])]
    return rng.choice(c) if c else None


def qc_only(w):
    b = w.pop("semispan", 3.0)
    if isinstance(b, list):
        b = b[0]
    w.pop("sweep", None)
    w.pop("dihedral", None)
    w["quarter_chord_locs"] = [[-0.1 * b, 0.5 * b, 0.0], [-0.3 * b, b, -0.05 * b]]


def explicit_grid(rng, N):
    pts = set()
    while len(pts) < 2 * N - 1:
        pts.add(round(rng.uniform(0.02, 0.98), 3))
    return [0.0] + sorted(pts) + [1.0]


def m_units(rng, sd, ac, st):
    sd["units"] = rng.choice(["Imperial", "english", "si", "Metric", "ENGLISH", ""])


def m_solver(rng, sd, ac, st):
    sd.setdefault("solver", {})["type"] = rng.choice(["newton", "Nonlinear", "fsolve", "scipy"])


def m_profile(rng, sd, ac, st):
    sd.setdefault("scene", {}).setdefault("atmosphere", {})[rng.choice(["rho", "viscosity", "speed_of_sound"])] = rng.choice(["mars", "Standard", "isa"])


def m_weight(rng, sd, ac, st):
    ac.pop("weight", None)


def m_velocity(rng, sd, ac, st):
    st.pop("velocity", None)


def m_alpha_vec(rng, sd, ac, st):
    st.pop("alpha", None)
    st.pop("beta", None)
    st["velocity"] = [100.0, 2.0, 5.0]
    st[rng.choice(["alpha", "beta"])] = rng.choice([2.0, 0.0, 0])       # (given at all, whatever the value: zero is a value)


def m_frame(rng, sd, ac, st):
    st["angular_rates"] = [0.01, 0.02, -0.01]
    st["angular_rate_frame"] = rng.choice(["earth", "Body", "stability", ""])


def m_unit_state(rng, sd, ac, st):
    st.pop("alpha", None)
    st.pop("beta", None)
    st["velocity"] = [100.0, rng.choice(["furlong/s", "fps", "knots", "m/sec"])]


def m_id0(rng, sd, ac, st):
    n = pick_wing(rng, ac, lambda w: not any(x.get("connect_to", {}).get("ID") == w["ID"] for x in ac["wings"].values()))
    if n:
        ac["wings"][n]["ID"] = 0
        ac["wings"][n].pop("connect_to", None)


def m_side(rng, sd, ac, st):
    ac["wings"][pick_wing(rng, ac)]["side"] = rng.choice(["up", "Left", "BOTH", "center", ""])


def m_span_neither(rng, sd, ac, st):
    w = ac["wings"][pick_wing(rng, ac)]
    w.pop("semispan", None)
    w.pop("quarter_chord_locs", None)


def m_span_both(rng, sd, ac, st):
    w = ac["wings"][pick_wing(rng, ac)]
    w.pop("sweep", None)
    w.pop("dihedral", None)
    w.setdefault("semispan", 3.0)
    w["quarter_chord_locs"] = [[-0.1, 1.5, 0.0], [-0.3, 3.0, -0.1]]


def m_dihedral_qc(rng, sd, ac, st):
    w = ac["wings"][pick_wing(rng, ac)]
    qc_only(w)
    w["dihedral"] = rng.choice([5.0, [[0.0, 2.0], [1.0, 6.0]]])


def m_sweep_qc(rng, sd, ac, st):
    w = ac["wings"][pick_wing(rng, ac)]
    qc_only(w)
    w["sweep"] = rng.choice([10.0, [[0.0, 2.0], [1.0, 16.0]]])


def m_airfoil(rng, sd, ac, st):
    w = ac["wings"][pick_wing(rng, ac)]
    good = list(ac["airfoils"])[0]
    w["airfoil"] = rng.choice(["nope", [[0.0, good], [1.0, "nope"]], [[0.0, "nope"], [1.0, good]], good.upper() + "_"])


def m_unit_dash_state(rng, sd, ac, st):
    # an unrecognised unit that contains the placeholder character "-"
    st.pop("alpha", None)
    st.pop("beta", None)
    st["velocity"] = [100.0, rng.choice(["m-s^-1", "ft-s", "m/s-", "-m/s"])]


def m_unit_dash_seg(rng, sd, ac, st):
    w = ac["wings"][pick_wing(rng, ac, lambda w: "semispan" in w)]
    w["semispan"] = [w["semispan"], rng.choice(["ft-in", "m-", "kg-f", "- "])]


def m_unit_seg(rng, sd, ac, st):
    w = ac["wings"][pick_wing(rng, ac, lambda w: "semispan" in w)]
    b = w["semispan"]
    w["semispan"] = [b, rng.choice(["furlong", "feet", "meter", "FT", "inches"])]


def m_grid_len(rng, sd, ac, st):
    w = ac["wings"][pick_wing(rng, ac)]
    N = w["grid"]["N"]
    w["grid"]["distribution"] = explicit_grid(rng, N + rng.choice([-1, 1]))


def m_grid_ends(rng, sd, ac, st):
    w = ac["wings"][pick_wing(rng, ac)]
    d = explicit_grid(rng, w["grid"]["N"])
    k = rng.choice(["start", "end", "beyond"])
    if k == "start":
        d[0] = 0.01
    elif k == "end":
        d[-1] = 0.99
    else:
        d[-1] = 1.1
    w["grid"]["distribution"] = d


def m_grid_mono(rng, sd, ac, st):
    w = ac["wings"][pick_wing(rng, ac)]
    d = explicit_grid(rng, w["grid"]["N"])
    i = rng.randint(1, len(d) - 3)
    if rng.random() < 0.5:
        d[i], d[i + 1] = d[i + 1], d[i]
    else:
        d[i + 1] = d[i]              # equal neighbours are not increasing either
    w["grid"]["distribution"] = d


def m_grid_type(rng, sd, ac, st):
    ac["wings"][pick_wing(rng, ac)]["grid"]["distribution"] = rng.choice(["sine_cluster", "cosine", "Linear", "uniform"])


def m_parent(rng, sd, ac, st):
    n = pick_wing(rng, ac, lambda w: not w.get("is_main"))
    n = n or pick_wing(rng, ac)
    ac["wings"][n]["connect_to"] = {"ID": 40 + rng.randint(0, 5), "location": "tip"}


def m_flap_ends(rng, sd, ac, st):
    w = ac["wings"][pick_wing(rng, ac)]
    cs = w.setdefault("control_surface", {"control_mixing": {"elevator": 1.0}})
    cs["root_span"], cs["tip_span"] = 0.2, 0.9
    a, b = rng.choice([(0.0, 0.9), (0.2, 1.0), (0.0, 1.0), (0.25, 0.9)])
    cs["chord_fraction"] = [[a, 0.2], [b, 0.3]]


def m_no_main(rng, sd, ac, st):
    for w in ac["wings"].values():
        w["is_main"] = False
    ref = rng.choice([{}, {"area": 8.0}, {"longitudinal_length": 1.0}, {"lateral_length": 8.0}, {"area": 8.0, "longitudinal_length": 1.0},
                      {"longitudinal_length": 1.0, "lateral_length": 8.0}])
    ac.pop("reference", None)
    if ref:
        ac["reference"] = ref


VIOLATIONS = dict(units=m_units, solver=m_solver, profile=m_profile, weight=m_weight, velocity=m_velocity, alpha_vec=m_alpha_vec, frame=m_frame,
                  unit_state=m_unit_state, unit_dash_state=m_unit_dash_state, unit_dash_seg=m_unit_dash_seg, id0=m_id0, side=m_side, span_neither=m_span_neither, span_both=m_span_both, dihedral_qc=m_dihedral_qc,
                  sweep_qc=m_sweep_qc, airfoil=m_airfoil, unit_seg=m_unit_seg, grid_len=m_grid_len, grid_ends=m_grid_ends, grid_mono=m_grid_mono,
                  grid_type=m_grid_type, parent=m_parent, flap_ends=m_flap_ends, no_main=m_no_main)


# valid variants: the neighbouring legal inputs (the model must not over-reject, the code must still compute)
def v_si(rng, sd, ac, st):
    sd["units"] = "SI"


def v_qc(rng, sd, ac, st):
    qc_only(ac["wings"][pick_wing(rng, ac)])


def v_grid(rng, sd, ac, st):
    w = ac["wings"][pick_wing(rng, ac)]
    w["grid"]["distribution"] = explicit_grid(rng, w["grid"]["N"])
    w["grid"].pop("cluster_points", None)


def v_flap(rng, sd, ac, st):
    w = ac["wings"][pick_wing(rng, ac)]
    cs = w.setdefault("control_surface", {"control_mixing": {"elevator": 1.0}})
    cs["root_span"], cs["tip_span"] = 0.2, 0.9
    cs["chord_fraction"] = [[0.2, 0.2], [0.9, 0.3]]


def v_vec(rng, sd, ac, st):
    st.pop("alpha", None)
    st.pop("beta", None)
    st["velocity"] = [100.0, 2.0, 5.0]


def v_frame(rng, sd, ac, st):
    st["angular_rates"] = [0.01, 0.02, -0.01]
    st["angular_rate_frame"] = rng.choice(["stab", "wind", "body"])


def v_ref(rng, sd, ac, st):
    for w in ac["wings"].values():
        w["is_main"] = False
    ac["reference"] = rng.choice([{"area": 8.0, "longitudinal_length": 1.0, "lateral_length": 8.0}, {"area": 8.0, "lateral_length": 8.0}])


def v_units(rng, sd, ac, st):
    w = ac["wings"][pick_wing(rng, ac, lambda w: "semispan" in w)]
    w["semispan"] = [w["semispan"], rng.choice(["ft", "m", " ft ", "in" if False else "ft"])]
    st.pop("alpha", None)
    st.pop("beta", None)
    st["velocity"] = [100.0, rng.choice(["ft/s", "m/s", "mph", "kn"])]


def v_profile(rng, sd, ac, st):
    sd.setdefault("scene", {}).setdefault("atmosphere", {})["rho"] = "standard"


VALID = dict(si=v_si, qc=v_qc, grid=v_grid, flap=v_flap, vec=v_vec, frame=v_frame, ref=v_ref, units=v_units, profile=v_profile)


def base_case(rng, hist):
    sd = gen.gen_scene(rng, hist, rho="const", wind=False)
    if rng.random() < 0.5:
        ac = gen.simple_wing_aircraft(N=rng.randint(3, 5), reid=rng.random() < 0.5)
        for w in ac["wings"].values():
            w["grid"].setdefault("N", 4)
    else:
        ac = gen.gen_aircraft(rng, hist, max_wings=3, sides=("both", "both", "left", "right"), N=rng.randint(3, 5), allow_explicit=False)
    st = {"velocity": round(rng.uniform(60, 140), 2), "alpha": round(rng.uniform(-3, 5), 2), "beta": round(rng.uniform(-3, 3), 2)}
    return sd, ac, st


def run_impl(MX, sd, ac, st):
    """-> ('loads', None) | ('raises', class or None, repr)"""
    try:
        sc = gen.build_scene(MX, copy.deepcopy(sd), [("a", copy.deepcopy(ac), copy.deepcopy(st), {})])
        if sd.get("solver", {}).get("type", "nonlinear") not in ("linear", "nonlinear", "scipy_fsolve"):
            # "... and never yields loads": not after a drawing call either, which prepares part of what a solve needs
            try:
                os.environ.setdefault("MPLBACKEND", "Agg")
                sc.display_wireframe(show_legend=False, filename=os.path.join(common.REPLAYS, "c19_wireframe.png"))
            except Exception:
                pass
        FM = sc.solve_forces(verbose=False)
        FM["a"]["total"]["FL"]
        return ("loads", None, "")
    except Exception as e:
        return ("raises", classify(e), "%s: %s" % (type(e).__name__, str(e)[:200]))


def run(chk):
    MX = common.setup_env()
    chk.proofs(extra_trusted=[
        "abstraction of the input dictionaries to the model's description record (harness/props/C19.py abs_*), written from the keys the code reads",
        "unit_known is instantiated with the unit tables regenerated from helpers.py on every run (Live/LiveTables.v)",
        "numbers that are only compared (grid fractions, flap span ends) are generated with three decimals and carried as integers",
        "nan / non-numeric values, malformed nesting and file-path inputs are not modelled"])
    rng = chk.rng
    n = chk.q(150, 1500)
    recs = []
    # every entry of the catalogue at least once per run, and every spelling of the unit system / solver type
    systematic = [[v] for v in sorted(VIOLATIONS)] + [["units=" + u] for u in ("Imperial", "english", "si", "Metric", "ENGLISH", "")] + \
                 [["solver=" + t for t in (x,)] for x in ("newton", "Nonlinear", "fsolve", "scipy")]
    for it in range(n + len(systematic)):
        sd, ac, st = base_case(rng, chk.hist)
        roll = rng.random()
        if it < len(systematic):
            muts = systematic[it]
        elif roll < 0.60:
            muts = [rng.choice(sorted(VIOLATIONS))]
        elif roll < 0.75:
            muts = rng.sample(sorted(VIOLATIONS), 2)
        elif roll < 0.95:
            muts = ["valid:" + rng.choice(sorted(VALID))]
        else:
            muts = []
        try:
            for m_ in muts:
                if m_.startswith("units="):
                    sd["units"] = m_[6:]
                elif m_.startswith("solver="):
                    sd.setdefault("solver", {})["type"] = m_[7:]
                else:
                    (VALID[m_[6:]] if m_.startswith("valid:") else VIOLATIONS[m_])(rng, sd, ac, st)
            term = abs_scene(sd, [("a", ac, st, {})])
        except Exception as e:          # a mutation that does not apply to this base (e.g. no wing with a semispan)
            chk.count("mutation-not-applicable")
            continue
        out = run_impl(MX, sd, ac, st)
        chk.case(dict(muts=muts, it=it), nontrivial=True)
        for m_ in muts or ["valid:plain"]:
            chk.count("input=" + m_)
        chk.count("impl=" + out[0] + ("/" + str(out[1]) if out[0] == "raises" else ""))
        recs.append((sd, ac, st, muts, out, term))
    # ---- the model's verdict, evaluated inside Coq
    imports = ["From Coq Require Import String.", "From MuxV Require Import Model.ImportValue Model.Validate Live.LiveTables."]
    defs = ["Close Scope float_scope.", "Open Scope string_scope.", "Open Scope list_scope.",
            "Definition uk (s : string) : bool := String.eqb s \"-\" || existsb (fun e => String.eqb (strip s) (fst (fst e))) live_units.",
            "Definition verdict (sc : scene) (raised : bool) (cls : option err) : bool := match scene_errs uk sc with [] => negb raised "
            "| l => raised && match cls with None => true | Some e => existsb (err_eqb e) l end end.",
            "Definition accepts (sc : scene) : bool := match scene_errs uk sc with [] => true | _ => false end."]
    cases = []
    for sd, ac, st, muts, out, term in recs:
        cls = "None" if out[1] is None else "(Some %s)" % out[1]
        cases.append("verdict %s %s %s" % (term, common.cbool(out[0] == "raises"), cls))
    failing, nfiles, errors = common.run_cases("C19", imports, defs, cases, chunk=150)
    acc_fail, _, errors2 = common.run_cases("C19acc", imports, defs, ["accepts %s" % r_[5] for r_ in recs], chunk=150)
    rejected_by_model = set(acc_fail)
    chk.cov["traces_validated_against_impl"] = len(cases)
    for e in errors + errors2:
        chk.fail_obligation("correspondence:C19-coqc", e)
    n_valid_ok = 0
    for i, (sd, ac, st, muts, out, term) in enumerate(recs):
        model_rejects = i in rejected_by_model
        if not model_rejects and out[0] == "loads":
            n_valid_ok += 1
        if i not in failing:
            continue
        rep = dict(kind="validation", mutations=muts, scene=sd, aircraft=ac, state=st, implementation=out, model_rejects=model_rejects, model_term=term)
        if model_rejects and out[0] == "loads":
            # the property itself: a documented constraint is violated and loads came out
            chk.violation("accepted:" + "+".join(sorted(muts)), dict(rep, what="input violating a documented constraint was accepted and loads were computed"))
        elif model_rejects:
            # rejected, but for a reason the model does not list: the model and the code disagree on a modelled constraint
            chk.violation("correspondence:class:" + str(out[1]), dict(rep, what="rejected with an error class the model does not predict"), no_input=True)
        else:
            if out[1] is not None:
                chk.violation("correspondence:spurious:" + str(out[1]), dict(rep, what="model accepts, code rejects with a modelled constraint"), no_input=True)
            else:
                chk.count("valid-input-other-error")       # e.g. solver did not converge: not a C19 matter
    if n_valid_ok < max(3, len(recs) // 20):
        chk.fail_obligation("correspondence:C19-vacuous", "only %d valid inputs were accepted by both model and code" % n_valid_ok)

    # ---- API-level constraints: names, pitch control, file extension, empty scene
    m = chk.q(12, 80)
    tmp = tempfile.mkdtemp(prefix="c19_", dir=os.path.join(common.VERIF, "replays"))
    try:
        for it in range(m):
            sd, ac, st = base_case(rng, None)
            sd = gen.gen_scene(rng, None, rho="const", wind=False)
            two = rng.random() < 0.5
            try:
                sc = gen.build_scene(MX, sd, [("a", ac, st, {})] + ([("b", copy.deepcopy(ac), dict(st, position=[0.0, 40.0, 0.0]), {})] if two else []))
                sc.solve_forces()
            except Exception as e:
                chk.count("api-base-error=" + type(e).__name__)
                continue
            names = ["a", "b"] if two else ["a"]
            chk.case(dict(kind="api", two=two, it=it), nontrivial=True)

            def raises(f):
                try:
                    f()
                    return False
                except Exception:
                    return True
            bad = []
            # unknown names
            for label, f in (("set_aircraft_state", lambda: sc.set_aircraft_state(state=copy.deepcopy(st), aircraft="zz")),
                             ("set_aircraft_control_state", lambda: sc.set_aircraft_control_state(control_state={}, aircraft="zz")),
                             ("remove_aircraft", lambda: sc.remove_aircraft("zz"))):      # (the trims ignore the name when there is one aircraft)
                if not raises(f):
                    bad.append("unknown-name:" + label)
            # unnamed with several aircraft
            for label, f in (("set_aircraft_state", lambda: sc.set_aircraft_state(state=copy.deepcopy(st))),
                             ("set_aircraft_control_state", lambda: sc.set_aircraft_control_state(control_state={})),
                             ("pitch_trim", lambda: sc.pitch_trim(pitch_control="elevator")),
                             ("pitch_trim_using_orientation", lambda: sc.pitch_trim_using_orientation(pitch_control="elevator")),
                             ("target_CL", lambda: sc.target_CL(CL=0.3))):
                r_ = raises(f)
                if two and not r_:
                    bad.append("unnamed-several:" + label)
                if not two and r_ and label in ("set_aircraft_state", "set_aircraft_control_state"):
                    bad.append("unnamed-single-rejected:" + label)
            # undefined pitch control
            for label, f in (("pitch_trim", lambda: sc.pitch_trim(aircraft="a", pitch_control="flaperon")),
                             ("pitch_trim_using_orientation", lambda: sc.pitch_trim_using_orientation(aircraft="a", pitch_control="flaperon"))):
                if not raises(f):
                    bad.append("undefined-pitch-control:" + label)
            # wrong file extension where the documentation says "must"
            for label, f in (("distributions", lambda: sc.distributions(filename=os.path.join(tmp, "d.json"))),
                             ("distributions-no-extension", lambda: sc.distributions(filename=os.path.join(tmp, "dist_run7"))),
                             ("distributions-fragment", lambda: sc.distributions(filename=os.path.join(tmp, "d.cs"))),
                             ("export_stl", lambda: sc.export_stl(filename=os.path.join(tmp, "m.txt"))),
                             ("export_vtk", lambda: sc.export_vtk(filename=os.path.join(tmp, "m.txt"))),
                             # the required extension somewhere in the name, another one at its end
                             ("distributions-contains", lambda: sc.distributions(filename=os.path.join(tmp, "d.csv.txt"))),
                             ("distributions-directory", lambda: sc.distributions(filename=os.path.join(tmp, "run.csv_files", "d.txt"))),
                             ("export_stl-contains", lambda: sc.export_stl(filename=os.path.join(tmp, "m.stl.txt"))),
                             ("export_vtk-contains", lambda: sc.export_vtk(filename=os.path.join(tmp, "m.vtk.bak")))):
                if not raises(f):
                    bad.append("extension:" + label)
            for b_ in bad:
                chk.violation("api:" + b_, dict(kind="api-constraint", what=b_, scene=sd, aircraft=ac, state=st, two_aircraft=two))
        # deflection distribution that does not span the flap (wing_segment.py 1355-1362)
        for it in range(chk.q(4, 20)):
            rs, ts = round(rng.uniform(0.1, 0.4), 2), round(rng.uniform(0.7, 1.0), 2)
            ac = gen.simple_wing_aircraft(N=5, reid=rng.random() < 0.5)
            ac["wings"]["main_wing"]["control_surface"].update(root_span=rs, tip_span=ts)
            ends = rng.choice([(0.0, ts), (rs, 1.1), (0.0, 1.0), (round(rs + 0.05, 2), ts), (rs, round(ts - 0.05, 2))])
            for (a_, b_), must_raise in ((ends, True), ((rs, ts), False)):
                cs_ = {"aileron": [[a_, 2.0], [b_, -1.0]]}
                try:
                    sc = gen.build_scene(MX, {"units": "English", "scene": {"atmosphere": {"rho": 0.0023769}}}, [("a", ac, {"velocity": 100.0, "alpha": 2.0}, cs_)])
                    sc.solve_forces()
                    raised = False
                except Exception as e:
                    raised = True
                chk.case(dict(kind="deflection-ends", ends=[a_, b_], flap=[rs, ts]), nontrivial=True)
                if must_raise and not raised:
                    chk.violation("api:deflection-distribution-ends", dict(kind="api-constraint", what="deflection distribution not spanning the flap was accepted",
                                                                           aircraft=ac, controls=cs_))
                if raised and not must_raise:
                    chk.violation("api:deflection-distribution-valid-rejected", dict(kind="api-constraint", what="valid deflection distribution rejected",
                                                                                     aircraft=ac, controls=cs_), no_input=True)
        # empty scene
        for label in ("solve_forces", "distributions", "pitch_trim", "pitch_trim_using_orientation", "target_CL"):
            sc = MX.Scene({"units": "English", "scene": {"atmosphere": {"rho": 0.0023769}}})
            try:
                r_ = getattr(sc, label)(**({"CL": 0.3} if label == "target_CL" else {}))
                chk.violation("api:empty-scene:" + label, dict(kind="api-constraint", what="solve on an empty scene returned " + repr(r_)[:200]))
            except Exception:
                pass
            chk.case(dict(kind="empty", call=label), nontrivial=True)
        # ... and after removing the last aircraft
        sd, ac, st = base_case(rng, None)
        sc = gen.build_scene(MX, {"units": "English", "scene": {"atmosphere": {"rho": 0.0023769}}}, [("a", gen.simple_wing_aircraft(N=4), {"velocity": 100.0, "alpha": 2.0}, {})])
        sc.solve_forces()
        sc.remove_aircraft("a")
        try:
            r_ = sc.solve_forces()
            chk.violation("api:empty-after-remove", dict(kind="api-constraint", what="solve after removing the last aircraft returned " + repr(r_)[:200]))
        except Exception:
            pass
    finally:
        shutil.rmtree(tmp, ignore_errors=True)
    # model side of the API constraints
    exprs = ['match resolve_name ["a"; "b"] None with CallRaises => true | _ => false end',
             'match resolve_name ["a"] None with Acts n => String.eqb n "a" | _ => false end',
             'match resolve_name ["a"; "b"] (Some "zz") with CallRaises => true | _ => false end',
             'match resolve_name [] None with CallRaises => true | _ => false end',
             'negb (trim_control_ok ["aileron"; "elevator"; "rudder"] "flaperon")', 'trim_control_ok ["aileron"; "elevator"; "rudder"] "elevator"',
             'negb (extension_ok ".csv" "d.json")', 'negb (extension_ok ".stl" "m.txt")', 'extension_ok ".vtk" "out/m.vtk"',
             'negb (ends_with ".csv" "d.csv.txt")', 'negb (ends_with ".csv" "run.csv_files/d.txt")', 'negb (ends_with ".stl" "m.stl.txt")',
             'negb (ends_with ".vtk" "m.vtk.bak")', 'ends_with ".vtk" "out/m.vtk"', 'negb (ends_with ".csv" "dist_run7")']
    f3, _, e3 = common.run_cases("C19api", imports, defs, exprs)
    for e in e3:
        chk.fail_obligation("correspondence:C19api-coqc", e)
    if f3:
        chk.fail_obligation("correspondence:C19api", "model API cases failing: %s" % f3)
    return chk.finish(rule="generated valid configurations with 0, 1 or 2 injected violations from a catalogue of %d documented constraints (and %d neighbouring valid "
                           "variants); the input dictionaries are abstracted to the model's record; accept/reject and the error class are compared with the "
                           "model evaluated in Coq; API-level constraints (unknown / missing aircraft names, undefined pitch control, file extensions, "
                           "empty scene) are exercised on 1- and 2-aircraft scenes" % (len(VIOLATIONS), len(VALID)))


def replay(chk, path):
    d = json.load(open(path))
    print(json.dumps({k: d[k] for k in d if k not in ("model_term",)}, indent=1, default=str)[:4000])
    if d.get("kind") == "validation":
        MX = common.setup_env()
        print("implementation now:", run_impl(MX, d["scene"], d["aircraft"], d["state"]))
    return 0
