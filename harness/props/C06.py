"""C06 — equivalent input descriptions (units, encodings) give identical results."""
import math, copy, json
import numpy as np
from harness import common, gen, api, live
from harness.common import fhex, fv3, fq4, ftable, ftable2, cbool

LEVEL = "proof"
IMPORTS = ["From Coq Require Import String.",
           "From MuxV Require Import Base.Num Base.Vec3 Base.FInst Model.Helpers Model.HelpersF Model.ImportValue Model.ImportValueF Model.AeroState Model.AeroStateF.",
           "Open Scope string_scope."]
UNITS = ["ft", "in", "m", "cm", "ft/s", "m/s", "mph", "kph", "kn", "ft^2", "m^2", "slug/ft^3", "kg/m^3", "lbf", "N", "deg", "rad",
         "deg/s", "rad/s"]
FT, LBF, SLUGFT3 = 0.3048, 4.4482216152605, 4.4482216152605 / 0.3048 ** 4


# ------------------------------------------------------------------ import_value correspondence
def py_to_coq(v):
    if v is None:
        return "PNone"
    if isinstance(v, bool):
        return "POther"
    if isinstance(v, float):
        return "(PFloat %s)" % fhex(v)
    if isinstance(v, int):
        return "(PInt (%d))" % v
    if isinstance(v, str):
        return '(PStr "%s")' % v
    if isinstance(v, list):
        return "(PList [%s])" % "; ".join(py_to_coq(x) for x in v)
    if callable(v):
        return "PCallable"
    return "POther"


def result_to_coq(f):
    try:
        r = f()
    except IndexError:
        return "(IRaise EIndexError)", "IndexError"
    except TypeError:
        return "(IRaise ETypeError)", "TypeError"
    except ValueError:
        return "(IRaise EValueError)", "ValueError"
    except OSError:
        return "(IRaise EIOError)", "IOError"
    if isinstance(r, float):
        return "(IFloat %s)" % fhex(r), "float"
    if isinstance(r, str):
        return '(IStr "%s")' % r, "str"
    if isinstance(r, tuple):
        return "(IElliptic %s)" % fhex(float(r[1])), "elliptic"
    if isinstance(r, np.ndarray) and r.ndim == 1:
        return "(IVec [%s])" % "; ".join(fhex(float(x)) for x in r), "vector"
    if isinstance(r, np.ndarray) and r.ndim == 2:
        return "(IArr [%s])" % "; ".join("[" + "; ".join(fhex(float(x)) for x in row) + "]" for row in r), "array"
    if callable(r):
        return "ICallable", "callable"
    return "(IRaise EValueError)", "other:" + type(r).__name__


def rand_pyval(rng):
    fl = lambda: rng.choice([rng.uniform(-100, 100), float(rng.randint(-5, 5)), rng.uniform(0, 1)])
    num = lambda: fl() if rng.random() < 0.8 else rng.randint(-9, 9)
    unit = lambda: rng.choice(UNITS + ["-", "furlong", "FT", "", "deg "]) if rng.random() < 0.25 else rng.choice(UNITS)
    k = rng.choice(["float", "int", "str", "none", "scalar_u", "vec", "vec_u", "badlen", "arr", "arr_u", "ell", "ell_u", "empty",
                    "callable", "other", "onlyunit", "vec4", "vec4_u"])
    if k == "float":
        return k, fl()
    if k == "int":
        return k, rng.randint(-1000, 1000)
    if k == "str":
        return k, rng.choice(["standard", "NACA_0010", "kuchemann", "elliptic", "body"])
    if k == "none":
        return k, None
    if k == "scalar_u":
        return k, [num(), unit()]
    if k == "vec":
        return k, [num() for _ in range(3)]
    if k == "vec4":
        return k, [fl() for _ in range(4)]
    if k == "vec_u":
        return k, [num() for _ in range(3)] + [unit()]
    if k == "vec4_u":
        return k, [fl() for _ in range(4)] + [unit()]
    if k == "badlen":
        return k, [fl() for _ in range(rng.choice([1, 2, 5, 6]))]
    if k == "arr":
        nc = rng.choice([2, 2, 4])
        return k, [[num() for _ in range(nc)] for _ in range(rng.randint(1, 4))]
    if k == "arr_u":
        nc = rng.choice([2, 2, 4])
        return k, [[fl() for _ in range(nc)] for _ in range(rng.randint(1, 4))] + [[rng.choice(["-", unit()]) for _ in range(nc)]]
    if k == "ell":
        return k, ["elliptic", num()]
    if k == "ell_u":
        return k, ["elliptic", num(), unit()]
    if k == "empty":
        return k, []
    if k == "callable":
        return k, (lambda s: s)
    if k == "onlyunit":
        return k, [unit()]
    return k, {"a": 1.0}


def import_cases(chk, H, n):
    rng = chk.rng
    cases, descr = [], []
    for i in range(n):
        kind, v = rand_pyval(rng)
        en = rng.random() < 0.5
        sysname = "English" if en else "SI"
        exp, tag = result_to_coq(lambda: H.import_value("key", {"key": copy.deepcopy(v)} if v is not None else {}, sysname, None))
        if tag.startswith("other:"):
            chk.count("import_skipped=" + tag)
            continue
        chk.count("import_kind=" + kind)
        chk.count("import_outcome=" + tag)
        cases.append("chk_import %s %s %s" % (cbool(en), py_to_coq(v), exp))
        descr.append(dict(op="import_value", value=v if not callable(v) else "<callable>", system=sysname, outcome=tag))
    return cases, descr


# ------------------------------------------------------------------ set_state / aero-state correspondence
D2R, R2D = math.pi / 180.0, 180.0 / math.pi


class Tables:
    def __init__(self):
        self.c, self.s, self.t, self.at, self.asn, self.at2 = [], [], [], [], [], []

    def cos(self, x):
        self.c.append((x, math.cos(x)))
        return math.cos(x)

    def sin(self, x):
        self.s.append((x, math.sin(x)))
        return math.sin(x)

    def tan(self, x):
        self.t.append((x, math.tan(x)))
        return math.tan(x)

    def atan(self, x):
        self.at.append((x, math.atan(x)))
        return math.atan(x)

    def asin(self, x):
        try:
            r = math.asin(x)
        except ValueError:
            r = float("nan")
        self.asn.append((x, r))
        return r

    def atan2(self, y, x):
        self.at2.append((y, x, math.atan2(y, x)))
        return math.atan2(y, x)

    def coq(self):
        return "(mk_orc %s %s %s %s %s %s %s %s)" % (ftable(self.c), ftable(self.s), ftable(self.t), ftable(self.at), ftable(self.asn),
                                                       ftable2(self.at2), fhex(D2R), fhex(R2D))




def mirror_body_velocity(tb, a, b, V):
    ca = tb.cos(a * D2R)
    Bf = tb.atan(tb.tan(b * D2R) / ca)
    sa = tb.sin(a * D2R)
    tb.cos(Bf)
    tb.sin(Bf)


def mirror_e2q(tb, p, t, s):
    for x in (p, t, s):
        tb.cos(x / 2)
        tb.sin(x / 2)


def state_cases(chk, MX, n):
    rng = chk.rng
    cases, descr = [], []
    sc = MX.Scene({})
    sc.add_aircraft("a", gen.simple_wing_aircraft(N=3), state={"velocity": 10.0})
    A = sc._airplanes["a"]
    for i in range(n):
        tb = Tables()
        wind = [rng.uniform(-20, 20), rng.uniform(-20, 20), rng.uniform(-5, 5)] if rng.random() < 0.5 else [0.0, 0.0, 0.0]
        st = {}
        if rng.random() < 0.5:
            E = [rng.uniform(-179, 179), rng.uniform(-89, 89), rng.uniform(-179, 179)]
            st["orientation"] = E
            o = "(OEuler %s %s %s)" % tuple(fhex(x) for x in E)
            mirror_e2q(tb, E[0] * D2R, E[1] * D2R, E[2] * D2R)
            chk.count("state_orientation=euler")
        else:
            q = [rng.gauss(0, 1) * rng.choice([1, 1, 5]) for _ in range(4)]
            st["orientation"] = q
            o = "(OQuat %s)" % fq4(q)
            chk.count("state_orientation=quat")
        if rng.random() < 0.5:
            V, a, b = rng.uniform(5, 300), rng.uniform(-30, 30), rng.uniform(-30, 30)
            st.update(velocity=V, alpha=a, beta=b)
            vin = "(VMag %s %s %s)" % (fhex(V), fhex(a), fhex(b))
            mirror_body_velocity(tb, a, b, V)
            ra, rb = a * D2R, b * D2R
            chk.count("state_velocity=mag")
        else:
            v = [rng.uniform(5, 300), rng.uniform(-40, 40), rng.uniform(-40, 40)]
            st["velocity"] = v
            vin = "(VVec %s)" % fv3(v)
            ra = rb = None
            chk.count("state_velocity=vec")
        fr = rng.choice(["body", "stab", "wind"])
        w = [rng.uniform(-1, 1) for _ in range(3)]
        st["angular_rates"] = w
        st["angular_rate_frame"] = fr
        chk.count("state_frame=" + fr)
        try:
            A.set_state(**copy.deepcopy(st), v_wind=np.array(wind))
        except Exception as e:
            chk.violation("set_state:raises", dict(kind="set_state", state=st, wind=wind, error=repr(e)))
            continue
        if ra is None:
            # velocity vector: the rate axes belong to the velocity relative to the local wind (body components)
            vr = np.array(st["velocity"], dtype=float) - MX.helpers.quat_trans(np.array(A.q, dtype=float), np.array(wind, dtype=float))
            ra = tb.atan2(float(vr[2]), float(vr[0]))
            rb = tb.asin(float(vr[1]) / math.sqrt(float(vr[0]) ** 2 + float(vr[1]) ** 2 + float(vr[2]) ** 2))
        if fr == "stab":
            mirror_e2q(tb, 0.0, ra, 0.0)
        elif fr == "wind":
            mirror_e2q(tb, 0.0, ra, -rb)
        cases.append("chk_set_state %s %s %s %s %s %s %s %s" % (
            tb.coq(), o, vin, {"body": "FBody", "stab": "FStab", "wind": "FWind"}[fr], fv3(w), fv3(wind),
            fq4(A.q), fv3(A.v) + " " + fv3(A.w)))
        descr.append(dict(op="set_state", state=st, wind=wind))
        # aerodynamic getter and setter on the state just stored
        tb2 = Tables()
        qn, vv = np.array(A.q, dtype=float), np.array(A.v, dtype=float)
        vb = MX.helpers.quat_trans(qn, vv - np.array(wind))
        Vm = math.sqrt(vb[0] * vb[0] + vb[1] * vb[1] + vb[2] * vb[2])
        tb2.atan2(float(vb[2]), float(vb[0]))
        tb2.asin(float(vb[1]) / Vm)
        a0, b0, V0 = A.get_aerodynamic_state(v_wind=np.array(wind))
        cases.append("chk_get_aero %s %s %s %s %s %s" % (tb2.coq(), fq4(qn), fv3(vv), fv3(wind), fhex(a0), fhex(b0) + " " + fhex(V0)))
        descr.append(dict(op="get_aerodynamic_state", state=st, wind=wind))
        args = {}
        for k, val in (("alpha", rng.uniform(-20, 20)), ("beta", rng.uniform(-20, 20)), ("velocity", rng.uniform(10, 200))):
            if rng.random() < 0.6:
                args[k] = val
        aa, bb, VV = args.get("alpha", a0), args.get("beta", b0), args.get("velocity", V0)
        mirror_body_velocity(tb2, aa, bb, VV)
        A.set_aerodynamic_state(**args, v_wind=np.array(wind))
        opt = lambda k: ("(Some %s)" % fhex(args[k])) if k in args else "None"
        cases.append("chk_set_aero %s %s %s %s %s %s %s %s" % (
            tb2.coq(), fq4(qn), fv3(vv), fv3(wind), opt("alpha"), opt("beta"), opt("velocity"), fv3(A.v)))
        descr.append(dict(op="set_aerodynamic_state", args=args, wind=wind))
    return cases, descr


# ------------------------------------------------------------------ API twin-scene sweep
def conv_len(x, f):
    return x * f


def to_SI_aircraft(ac):
    """English aircraft dict -> the same aircraft described in SI numbers."""
    ac = copy.deepcopy(ac)
    ac["CG"] = [c * FT for c in ac["CG"]]
    ac["weight"] = ac["weight"] * LBF
    if "reference" in ac:
        ac["reference"] = dict(area=ac["reference"]["area"] * FT * FT, longitudinal_length=ac["reference"]["longitudinal_length"] * FT,
                               lateral_length=ac["reference"]["lateral_length"] * FT)
    for w in ac["wings"].values():
        if "semispan" in w:
            w["semispan"] *= FT
        if "quarter_chord_locs" in w:
            w["quarter_chord_locs"] = [[c * FT for c in p] for p in w["quarter_chord_locs"]]
        ch = w.get("chord", 1.0)
        if isinstance(ch, list) and ch and ch[0] == "elliptic":
            w["chord"] = ["elliptic", ch[1] * FT]
        elif isinstance(ch, list):
            w["chord"] = [[r[0], r[1] * FT] for r in ch]
        else:
            w["chord"] = ch * FT
        c = w.get("connect_to")
        if c:
            for k in ("dx", "dy", "dz", "y_offset"):
                if k in c:
                    c[k] *= FT
    return ac


def twin_units(rng, sd, ac, st, cs):
    """English description vs SI description of the same physical scene."""
    sd1 = copy.deepcopy(sd)
    sd1["units"] = "English"
    sd1["scene"]["atmosphere"] = {"rho": 0.0023769, "V_wind": [3.0, -2.0, 1.0]}
    sd2 = copy.deepcopy(sd1)
    sd2["units"] = "SI"
    sd2["scene"]["atmosphere"] = {"rho": 0.0023769 * SLUGFT3, "V_wind": [3.0 * FT, -2.0 * FT, 1.0 * FT]}
    ac2 = to_SI_aircraft(ac)
    st2 = copy.deepcopy(st)
    if isinstance(st2["velocity"], list):
        st2["velocity"] = [v * FT for v in st2["velocity"]]
    else:
        st2["velocity"] *= FT
    if "position" in st2:
        st2["position"] = [p * FT for p in st2["position"]]
    return (sd1, ac, st, cs), (sd2, ac2, st2, cs), "units"


def compare_units(a, b):
    """a: English results, b: SI results.  Coefficients equal; forces differ by lbf->N, moments by ft*lbf->N*m."""
    bad = []
    fa, fb = api.flatten(a["forces"]), api.flatten(b["forces"])
    for k in sorted(set(fa) | set(fb)):
        if k not in fa or k not in fb:
            bad.append((k, fa.get(k), fb.get(k)))
            continue
        key = k.split("/")[2] if k.count("/") >= 2 else k
        if key[0] == "F":
            f = LBF
        elif key[0] == "M":
            f = LBF * FT
        else:
            f = 1.0
        x, y = fa[k] * f, fb[k]
        if not (abs(x - y) <= 3e-6 * max(abs(x), abs(y)) + 1e-7):
            bad.append((k, x, y))
    return bad


def twin_annotations(rng, sd, ac, st, cs):
    """explicit unit annotations (in the other system's units) vs pre-converted plain numbers"""
    units = sd["units"]
    lu, vu, lf = ("m", "m/s", 3.28084) if units == "English" else ("ft", "ft/s", 0.3048)
    ac2 = copy.deepcopy(ac)
    for w in ac2["wings"].values():
        if "semispan" in w:
            w["semispan"] = [w["semispan"] / lf * 1.0, lu]
            w["semispan"][0] = float(w["semispan"][0])
        ch = w.get("chord", 1.0)
        if isinstance(ch, list) and ch and ch[0] == "elliptic":
            w["chord"] = ["elliptic", ch[1] / lf, lu]
        elif isinstance(ch, list):
            w["chord"] = [[r[0], r[1] / lf] for r in ch] + [["-", lu]]
        else:
            w["chord"] = [ch / lf, lu]
        for k in ("dx", "dy", "dz", "y_offset"):
            if k in w.get("connect_to", {}):
                w["connect_to"][k] = [float(w["connect_to"][k]) / lf, lu]
        for k in ("sweep", "dihedral", "twist"):
            if k in w:
                if isinstance(w[k], list):
                    w[k] = [[r[0], math.radians(r[1])] for r in w[k]] + [["-", "rad"]]
                else:
                    w[k] = [math.radians(w[k]), "rad"]
    ac2["CG"] = [c / lf for c in ac["CG"]] + [lu]
    st2 = copy.deepcopy(st)
    if isinstance(st2["velocity"], list):
        st2["velocity"] = [v / lf for v in st2["velocity"]] + [vu]
    else:
        st2["velocity"] = [st2["velocity"] / lf, vu]
        st2["alpha"] = [math.radians(st.get("alpha", 0.0)), "rad"]
    if "angular_rates" in st2:
        st2["angular_rates"] = [math.degrees(x) for x in st2["angular_rates"]] + ["deg/s"]
    if "position" in st2:
        st2["position"] = [p / lf for p in st2["position"]] + [lu]
    cs2 = {k: [math.radians(v), "rad"] for k, v in cs.items()}
    return (sd, ac, st, cs), (sd, ac2, st2, cs2), "annotations"


def twin_const_array(rng, sd, ac, st, cs):
    ac = copy.deepcopy(ac)
    ac2 = copy.deepcopy(ac)
    n = 0
    for w in ac2["wings"].values():
        if n == 0 and not isinstance(w.get("ll_offset"), str):
            # the lifting-line offset "is defined the same as twist": a number or a table
            off_ = float(w.get("ll_offset", 0.04))
            w_base = ac["wings"][[k_ for k_, v_ in ac2["wings"].items() if v_ is w][0]]
            w_base["ll_offset"] = off_
            w["ll_offset"] = [[0.0, off_], [1.0, off_]]
            n += 1
        for k in ("chord", "sweep", "dihedral", "twist"):
            if k == "sweep" and w.get("ll_offset") == "kuchemann":
                continue          # documented: Kuchemann's offset is only applied when the sweep is given as a constant (warning otherwise)
            if isinstance(w.get(k), float):
                w[k] = [[0.0, w[k]], [1.0, w[k]]]
                n += 1
        cf = w.get("control_surface", {}).get("chord_fraction")
        if isinstance(cf, float):
            csf = w["control_surface"]
            csf["chord_fraction"] = [[csf.get("root_span", 0.0), cf], [csf.get("tip_span", 1.0), cf]]
            n += 1
        if isinstance(w.get("airfoil"), str):
            w["airfoil"] = [[0.0, w["airfoil"]], [1.0, w["airfoil"]]]
            n += 1
    if n == 0:
        return None
    return (sd, ac, st, cs), (sd, ac2, st, cs), "const_array"


def twin_uvw(rng, sd, ac, st, cs):
    if isinstance(st["velocity"], list):
        return None
    V, a, b = st["velocity"], math.radians(st.get("alpha", 0.0)), math.radians(st.get("beta", 0.0))
    # MachUpX's beta is the experimental sideslip angle: v = V sin(beta); alpha = atan2(w,u)
    v = V * math.sin(b)
    uw = V * math.cos(b)
    st2 = {k: val for k, val in st.items() if k not in ("alpha", "beta")}
    st2["velocity"] = [uw * math.cos(a), v, uw * math.sin(a)]
    sd2 = copy.deepcopy(sd)
    sd2["scene"]["atmosphere"].pop("V_wind", None)
    return (sd2, ac, st, cs), (sd2, ac, st2, cs), "uvw"


def twin_euler_quat(rng, sd, ac, st, cs):
    E = [rng.uniform(-170, 170), rng.uniform(-80, 80), rng.uniform(-170, 170)]
    st1 = dict(st, orientation=E)
    st2 = dict(st, orientation=[x * rng.choice([1.0, 2.5]) for x in api.euler_to_quat_deg(E)])
    return (sd, ac, st1, cs), (sd, ac, st2, cs), "euler_quat"


def twin_rate_frames(rng, sd, ac, st, cs):
    if isinstance(st["velocity"], list):
        V = st["velocity"]
        a = math.atan2(V[2], V[0])
        b = math.asin(V[1] / math.sqrt(sum(x * x for x in V)))
    else:
        a, b = math.radians(st.get("alpha", 0.0)), math.radians(st.get("beta", 0.0))
    w_b = np.array([rng.uniform(-0.15, 0.15), rng.uniform(-0.1, 0.1), rng.uniform(-0.1, 0.1)])
    Ry = np.array([[math.cos(a), 0, -math.sin(a)], [0, 1, 0], [math.sin(a), 0, math.cos(a)]])      # stab -> body
    Rz = np.array([[math.cos(b), -math.sin(b), 0], [math.sin(b), math.cos(b), 0], [0, 0, 1]])      # wind -> stab
    fr = rng.choice(["stab", "wind"])
    if fr == "stab":
        w_f = Ry.T @ w_b
    else:
        w_f = Rz.T @ (Ry.T @ w_b)
    st1 = dict(st, angular_rates=w_b.tolist(), angular_rate_frame="body")
    st2 = dict(st, angular_rates=w_f.tolist(), angular_rate_frame=fr)
    return (sd, ac, st1, cs), (sd, ac, st2, cs), "rates_" + fr


def twin_callable(rng, sd, ac, st, cs):
    """chord, twist, sweep and dihedral given as Python functions of the span fraction instead of numbers / tables"""
    # (a swept wing with dihedral that has a left half, whatever was drawn: the per-side conventions apply to functions as well)
    ac = copy.deepcopy(ac)
    for w in ac["wings"].values():
        if "quarter_chord_locs" not in w and w.get("ll_offset") != "kuchemann":
            if not w.get("sweep"):
                w["sweep"] = 15.0
            if not w.get("dihedral"):
                w["dihedral"] = 6.0
            if w.get("side") == "right" and w.get("connect_to", {}).get("ID", 0) == 0:
                w["side"] = "both"
            break
    ac2 = copy.deepcopy(ac)
    n = 0
    kinked = [False]

    def as_function(v):
        if isinstance(v, (int, float)):
            return lambda s_, c_=float(v): np.full(np.shape(s_), c_) if np.ndim(s_) else c_
        xs, ys = [float(r_[0]) for r_ in v], [float(r_[1]) for r_ in v]
        if len(set(xs)) != len(xs):
            return None                     # (a step table has no function of the span fraction)
        if len(xs) > 2:
            kinked[0] = True                # (a function with corners: the code cannot know where to split its quadrature)
        return lambda s_, xs=xs, ys=ys: np.interp(s_, xs, ys)
    for w in ac2["wings"].values():
        if "quarter_chord_locs" in w or w.get("ll_offset") == "kuchemann":
            continue
        for k in ("sweep", "dihedral", "twist", "chord"):
            v = w.get(k)
            if isinstance(v, (int, float)) or (isinstance(v, list) and v and isinstance(v[0], (list, tuple))):
                f_ = as_function(v)
                if f_ is not None:
                    # angles: the functions return degrees?  The documentation asks for radians from a function
                    if k in ("sweep", "dihedral", "twist"):
                        w[k] = (lambda g_: (lambda s_: np.radians(g_(s_))))(f_)
                    else:
                        w[k] = f_
                    n += 1
    if n == 0:
        return None
    return (sd, ac, st, cs), (sd, ac2, st, cs), ("callable-with-corners" if kinked[0] else "callable")


def twin_int_float(rng, sd, ac, st, cs):
    """the same state written with integers and with floats (JSON files often carry [100, 0, 10]): velocity vector, rates in stability or
    wind axes, position and Euler angles"""
    fr = rng.choice(["body", "stab", "wind"])
    st1 = {"velocity": [rng.randint(60, 120), rng.randint(-6, 6), rng.randint(2, 12)], "position": [rng.randint(-50, 50), rng.randint(-50, 50), -rng.randint(100, 900)],
           "orientation": [rng.randint(-40, 40), rng.randint(-20, 20), rng.randint(-170, 170)], "angular_rates": [rng.randint(-1, 1), rng.randint(-1, 1), rng.randint(0, 1)],
           "angular_rate_frame": fr}
    st2 = {k: ([float(x) for x in v] if isinstance(v, list) else v) for k, v in st1.items()}
    return (sd, ac, st1, cs), (sd, ac, st2, cs), "int_float"


def twin_qc_points(rng, sd, ac, st, cs):
    """semispan + constant sweep + constant dihedral  vs  the equivalent quarter-chord end point"""
    ac1 = copy.deepcopy(ac)
    found = False
    for name, w in ac1["wings"].items():
        sw, di = w.get("sweep", 0.0), w.get("dihedral", 0.0)
        if "semispan" in w and isinstance(sw, float) and isinstance(di, float) and abs(di) < 60:
            if not found and abs(sw) < 5.0 and w.get("ll_offset") != "kuchemann":
                w["sweep"] = sw = 15.0          # (the first such wing is swept in both descriptions: the points then run in x as well)
            if not found and abs(di) < 2.0:
                w["dihedral"] = di = 6.0
            found = True
    if not found:
        return None
    ac2 = copy.deepcopy(ac1)
    for name, w in ac2["wings"].items():
        sw, di = w.get("sweep", 0.0), w.get("dihedral", 0.0)
        if "semispan" in w and isinstance(sw, float) and isinstance(di, float) and abs(di) < 60:
            b = w.pop("semispan")
            w.pop("sweep", None)
            w.pop("dihedral", None)
            s, d = math.radians(sw), math.radians(di)
            w["quarter_chord_locs"] = [[-b * math.tan(s), b * math.cos(d), -b * math.sin(d)]]
    return (sd, ac1, st, cs), (sd, ac2, st, cs), "qc_points"


def twin_chain(rng, sd, ac, st, cs):
    """one segment vs a chain of two segments carrying the identical grid (Reid corrections off)"""
    b, c0, c1 = rng.uniform(3, 6), rng.uniform(0.8, 1.4), rng.uniform(0.4, 0.8)
    sw, di, tw0, tw1 = rng.uniform(0, 20), rng.uniform(-3, 8), rng.uniform(-2, 2), rng.uniform(-3, 1)
    N1, N2 = rng.randint(2, 4), rng.randint(2, 4)
    sp = round(rng.uniform(0.35, 0.65), 3)
    inner = sorted(set(round(rng.uniform(0.03, 0.97), 3) for _ in range(60)))
    g1 = [0.0] + sorted(rng.sample(inner, 2 * N1 - 1)) + [1.0]
    g2 = [0.0] + sorted(rng.sample(inner, 2 * N2 - 1)) + [1.0]
    full = [x * sp for x in g1] + [sp + x * (1 - sp) for x in g2[1:]]
    full[-1] = 1.0
    lin = lambda y0, y1, s: y0 + (y1 - y0) * s
    af = {"af0": {"type": "linear", "aL0": -0.03, "CLa": 6.1, "CmL0": -0.02, "Cma": 0.01, "CD0": 0.006, "CD1": -0.002, "CD2": 0.01,
                  "geometry": {"NACA": "0010"}}}
    base = {"CG": [0.0, 0.0, 0.0], "weight": 50.0, "airfoils": af,
            "reference": {"area": 8.0, "longitudinal_length": 1.0, "lateral_length": 8.0}}
    if rng.random() < 0.5:
        del base["reference"]        # default reference area / lengths: the chain's main segments add up to the single segment
    side = rng.choice(["both", "right", "left"])
    one = dict(base, wings={"w": {"ID": 1, "side": side, "is_main": True, "semispan": b, "chord": [[0.0, c0], [1.0, c1]],
                                 "sweep": sw, "dihedral": di, "twist": [[0.0, tw0], [1.0, tw1]], "airfoil": "af0",
                                 "grid": {"N": N1 + N2, "distribution": full, "reid_corrections": False}}})
    two = dict(base, wings={
        "w": {"ID": 1, "side": side, "is_main": True, "semispan": b * sp, "chord": [[0.0, c0], [1.0, lin(c0, c1, sp)]], "sweep": sw,
              "dihedral": di, "twist": [[0.0, tw0], [1.0, lin(tw0, tw1, sp)]], "airfoil": "af0",
              "grid": {"N": N1, "distribution": g1, "reid_corrections": False}},
        "o": {"ID": 2, "side": side, "is_main": True, "connect_to": {"ID": 1, "location": "tip"}, "semispan": b * (1 - sp),
              "chord": [[0.0, lin(c0, c1, sp)], [1.0, c1]], "sweep": sw, "dihedral": di,
              "twist": [[0.0, lin(tw0, tw1, sp)], [1.0, tw1]], "airfoil": "af0",
              "grid": {"N": N2, "distribution": g2, "reid_corrections": False}}})
    return (sd, one, st, {}), (sd, two, st, {}), "chain"


def twin_csv(rng, sd, ac, st, cs):
    """a distribution written to a .csv file (with a unit row, in the other system's unit of length) vs the same table given in line"""
    units = sd["units"]
    lu, lf = ("m", 3.28084) if units == "English" else ("ft", 0.3048)
    ac1, ac2 = copy.deepcopy(ac), copy.deepcopy(ac)
    d = common.os.path.join(common.REPLAYS, "c06_csv")
    common.os.makedirs(d, exist_ok=True)
    for name, w in ac1["wings"].items():
        ch = w.get("chord", 1.0)
        if isinstance(ch, float):
            ch = [[0.0, ch], [1.0, ch]]
        if not (isinstance(ch, list) and ch and isinstance(ch[0], list)):
            continue
        w["chord"] = [[float(r[0]), float(r[1])] for r in ch]
        fn = common.os.path.join(d, "chord_%s_%d.csv" % (name, rng.randrange(10 ** 6)))
        with open(fn, "w") as fh:
            for r in ch:
                fh.write("%r,%r\n" % (float(r[0]), float(r[1]) / lf))
            fh.write("-,%s\n" % lu)
        ac2["wings"][name]["chord"] = fn
        return (sd, ac1, st, cs), (sd, ac2, st, cs), "csv"
    return None


TWINS = [twin_csv, twin_units, twin_annotations, twin_const_array, twin_uvw, twin_euler_quat, twin_rate_frames, twin_qc_points, twin_chain, twin_int_float, twin_callable]


def totals(MX, sd, ac, st, cs):
    sc = gen.build_scene(MX, sd, [("a", ac, st, cs)])
    FM = api.solve(sc)
    return {"forces": FM}


def twin_sweep(chk, MX, n):
    rng = chk.rng
    per = {}
    attempts = 0
    while sum(per.values()) < n and attempts < 6 * n:
        attempts += 1
        tw = TWINS[attempts % len(TWINS)]
        units = "English" if tw is twin_units else rng.choice(["English", "SI"])
        sd = gen.gen_scene(rng, chk.hist, units=units, rho="const", wind=False, solver={"type": "nonlinear"})
        ac = gen.gen_aircraft(rng, chk.hist, max_wings=2, sides=("both", "both", "left", "right"), allow_chain=False,
                              explicit_refs=True if tw in (twin_qc_points,) else None)
        st = gen.gen_state(rng, chk.hist, pose=True)
        cs = gen.gen_controls(rng, ac)
        try:
            r = tw(rng, sd, ac, st, cs)
        except Exception as e:
            raise
        if r is None:
            continue
        A, B, name = r
        try:
            ra = totals(MX, *A)
        except Exception as e:
            chk.count("twin_base_error=%s:%s" % (name, type(e).__name__))
            continue
        if not api.all_finite(ra["forces"]):
            chk.count("twin_base_nonfinite=" + name)   # reported by C12/C04 (reference defaults), not an equivalence failure
            continue
        if name == "csv":
            # the same file read first by a scene in the other unit system, in the same session: what a file means depends on the scene that reads it
            try:
                totals(MX, dict(B[0], units=("SI" if B[0]["units"] == "English" else "English")), *B[1:])
            except Exception as e:
                chk.count("csv-other-system-error=" + type(e).__name__)
        try:
            rb = totals(MX, *B)
        except Exception as e:
            chk.violation("twin:%s:raises" % name, dict(kind="twin", twin=name, a=A, b=B, error=repr(e)))
            per[name] = per.get(name, 0) + 1
            continue
        if name == "units":
            bad = compare_units(ra, rb)
        else:
            # (a table is integrated piece by piece between its nodes; the same table wrapped in a function is integrated by scipy's quad
            # across its corners, to quad's own accuracy there)
            tolr = 5e-6 if name in ("annotations", "csv") else (3e-5 if name == "callable-with-corners" else 2e-6)
            # (annotated values go through the code's unit table, whose constants carry seven digits: a quantity that is small through
            # cancellation inherits that error relative to the largest load of its kind, not to itself)
            bad = api.compare(ra, rb, rtol=tolr, atol=2e-7, scale_atol=5e-6 if name in ("annotations", "csv") else (2e-5 if name == "callable-with-corners" else 2e-8))
        chk.case(dict(twin=name, units=units, n_wings=len(ac["wings"]), digest=common.hashlib.sha1(json.dumps([A, B], sort_keys=True, default=str).encode()).hexdigest()[:10]), nontrivial=True)
        chk.count("twin=" + name)
        per[name] = per.get(name, 0) + 1
        if bad:
            chk.violation("twin:%s" % name, dict(kind="twin", twin=name, a=A, b=B, differences=bad[:8]))
    chk.cov["twin_counts"] = per


def run(chk):
    MX = common.setup_env()
    import machupX.helpers as H
    MX.helpers = H
    live.generate()
    chk.proofs(extra_trusted=[
        "Live/LiveTables.v: both unit tables extracted from the AST of helpers.convert_units and cross-checked by calling it (harness/live.py)",
        "correspondence: Model/ImportValue.v and Model/AeroState.v on binary64 vs helpers.import_value, Airplane.set_state, "
        "get/set_aerodynamic_state, bit-exact; math.cos/sin/tan/atan/asin/atan2 as oracle tables",
        "Interval library (interval tactic) for the pi bounds",
        "modelled, not verified: CSV reading (np.genfromtxt), callables, airfoil arrays with string cells (outside the pyval model)"])
    c1, d1 = import_cases(chk, H, chk.q(1200, 10000))
    c2, d2 = state_cases(chk, MX, chk.q(250, 2500))
    cases, descr = c1 + c2, d1 + d2
    failing, nfiles, errors = common.run_cases("C06", IMPORTS, [], cases)
    chk.cov["traces_validated_against_impl"] = len(cases)
    chk.cov["correspondence_cases"] = len(cases)
    for d in d1[:2] + d2[:2]:
        chk.cov["samples"].append(dict(correspondence=d))
    nv0 = len(chk.violations)
    twin_sweep(chk, MX, chk.q(40, 400))
    if errors:
        chk.fail_obligation("correspondence:C06(case files do not compile)", "\n".join(errors)[-3000:])
    elif failing and len(chk.violations) == nv0 and not chk.known_hits:
        d = descr[failing[0]]
        chk.fail_obligation("correspondence:" + d["op"], json.dumps(dict(first_disagreement=d, n_disagreements=len(failing)), default=str))
    elif failing:
        chk.notes.append("correspondence disagreements: %d (first: %s)" % (len(failing), json.dumps(descr[failing[0]], default=str)))
    return chk.finish(
        rule="correspondence: random Python values of every accepted/rejected shape through import_value in both systems; random states in "
             "every encoding (Euler/quaternion, V-alpha-beta/uvw, body/stab/wind rates, with and without wind) through set_state and the "
             "aerodynamic getter/setter, bit-exact; sweep: twin scenes per equivalence (units, annotations, constant arrays, uvw, "
             "Euler/quaternion, rate frames, quarter-chord points, segment chains); every twin pair counts as non-trivial")


def replay(chk, path):
    r = json.load(open(path))
    MX = common.setup_env()
    if r.get("kind") == "twin" and "b" in r:
        ra, rb = totals(MX, *r["a"]), totals(MX, *r["b"])
        bad = compare_units(ra, rb) if r["twin"] == "units" else api.compare(ra, rb, rtol=5e-6, atol=2e-7, scale_atol=2e-8)
        print("differences:", bad[:8])
        if bad:
            print("VIOLATION property=C06 replay=%s" % path)
            return 1
        return 0
    print(json.dumps(r, indent=1)[:3000])
    return 0
