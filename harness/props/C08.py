"""C08 — analyses are side-effect free; set-state options leave exactly the solved state."""
import math, copy, json
import numpy as np
from harness import common, gen, api

LEVEL = "proof"
IMPORTS = ["From MuxV Require Import Base.Num Base.Vec3 Base.FInst Model.Helpers Model.AeroState Model.Restore Model.RestoreF."]
RESTORE_CASES, RESTORE_DESCR = [], []


def cfs(st):
    """Coq literal of the complete state an aircraft object holds"""
    from harness.common import fhex
    fr = {"body": "FBody", "stab": "FStab", "wind": "FWind"}[st["rate_frame"]]
    v3 = lambda v: "(V3 %s %s %s)" % tuple(fhex(x) for x in v)
    return "(mk_fs %s (Q4 %s %s %s %s) %s %s %s)" % (v3(st["p"]), fhex(st["q"][0]), fhex(st["q"][1]), fhex(st["q"][2]), fhex(st["q"][3]), v3(st["v"]), v3(st["w"]), fr)


def snapshot(sc):
    return {n: api.aircraft_state(sc, n) for n in sc._airplanes}


def scene_for(chk, MX, multi, wind):
    rng = chk.rng
    sd = gen.gen_scene(rng, chk.hist, wind=wind, rho="const", solver={"type": "nonlinear"})
    acs = []
    for k in range(2 if multi else 1):
        ac = gen.simple_wing_aircraft(N=3, b=rng.uniform(3, 5), sweep=rng.choice([None, 10.0]), reid=rng.random() < 0.5)
        st = gen.gen_state(rng, chk.hist, ang=5.0, rate_frames=("body", "body", "stab", "wind"))
        if multi:
            st["position"] = [rng.uniform(-20, 20), k * rng.uniform(15, 30), rng.uniform(-500, -10)]
        cs = {"aileron": round(rng.uniform(-4, 4), 2), "rudder": round(rng.uniform(-4, 4), 2), "elevator": round(rng.uniform(-4, 4), 2)}
        acs.append(("ac%d" % k, ac, st, cs))
    return sd, acs


# the exports (files go to the replay directory and are overwritten)
EXPORTS = {
    "export_stl": lambda sc, n: sc.export_stl(filename=common.os.path.join(common.REPLAYS, "c08_export.stl"), section_resolution=6),
    "export_vtk": lambda sc, n: sc.export_vtk(filename=common.os.path.join(common.REPLAYS, "c08_export.vtk"), section_resolution=6, aircraft=n),   # (one aircraft per file)
    "export_pylot_model": lambda sc, n: sc.export_pylot_model(filename=common.os.path.join(common.REPLAYS, "c08_pylot.json")),
    "distributions_degrees": lambda sc, n: sc.distributions(radians=False),
    "distributions_file": lambda sc, n: sc.distributions(filename=common.os.path.join(common.REPLAYS, "c08_dist.csv"), radians=False),
}


FORCED = {}


def side_effect_sweep(chk, MX, n):
    rng = chk.rng
    names = list(api.ANALYSES) + list(EXPORTS)
    done = 0
    while done < n:
        an = names[done % len(names)]
        multi = (an in api.MULTI_PREFERRED and rng.random() < 0.8) or (rng.random() < 0.3 and an not in api.SINGLE_ONLY and an != "export_pylot_model")
        wind = rng.random() < 0.6
        sd, acs = scene_for(chk, MX, multi, wind)
        done += 1
        if not multi and (done % 3 == 0 or an == "export_pylot_model"):
            # an atmosphere that varies with altitude and an aircraft high up: what the control points see depends on where the aircraft is, so
            # an analysis that moves the aircraft away and back has to refresh the scene's arrays even when the attitude is the one it used
            # (every other time in the default attitude)
            sd["scene"]["atmosphere"]["rho"] = "standard"
            FORCED["altitude"] = FORCED.get("altitude", 0) + 1
            for nm_, ac_, st_, cs_ in acs:
                st_["position"] = [round(rng.uniform(-100, 100), 1), round(rng.uniform(-100, 100), 1), -round(rng.uniform(3000, 8000), 1)]
                if (FORCED["altitude"] % 2 == 1 or an == "export_pylot_model") and "orient" not in an:
                    st_.pop("orientation", None)
                    chk.count("standard-atmosphere-at-altitude:default-attitude")
            chk.count("standard-atmosphere-at-altitude")
        if "orient" in an:
            # (a banked, moderately pitched attitude: the trim converges and Earth-fixed and body-fixed components differ)
            for nm_, ac_, st_, cs_ in acs:
                st_["orientation"] = [round(rng.uniform(10, 30) * rng.choice([-1, 1]), 2), round(rng.uniform(-8, 8), 2), round(rng.uniform(-170, 170), 2)]
        if done % 2 == 0:
            # keys of other tools that share the aircraft file (Pylot's travel limit of a control) are carried along, not acted upon: the
            # commanded deflections below exceed it
            for nm_, ac_, st_, cs_ in acs:
                for c_ in ac_["controls"].values():
                    c_["max_deflection"] = 1.5
            chk.count("controls-with-foreign-keys")
        try:
            sc = gen.build_scene(MX, sd, acs)
            before_fm = api.solve(sc)
        except Exception as e:
            chk.count("scene_error=" + type(e).__name__)
            continue
        before = snapshot(sc)
        target = rng.choice(list(sc._airplanes))
        try:
            (api.ANALYSES.get(an) or EXPORTS[an])(sc, target)
        except Exception as e:
            if type(e).__name__ in ("MaxIterationError", "SolverNotConvergedError"):
                chk.count("analysis_nonconverged=" + an)
                continue
            chk.violation("analysis-raises:%s" % an, dict(kind="side-effect", analysis=an, scene=sd, aircraft=acs, target=target, error=repr(e)))
            continue
        after = snapshot(sc)
        chk.case(dict(analysis=an, multi=multi, wind=wind, digest=common.hashlib.sha1(json.dumps([sd, acs], sort_keys=True, default=str).encode()).hexdigest()[:8]),
                 nontrivial=True)
        chk.count("analysis=%s/%s" % (an, "wind" if wind else "still"))
        if an in ("state_derivatives", "state_derivatives_all", "pitch_trim_orient_noset", "export_pylot_model"):
            # the analyses that go through set_state with a keyword dictionary (export_pylot_model since fix 13935a1): the object's complete
            # state against Model/Restore.v
            for nm in before:
                RESTORE_CASES.append("chk_restore %s %s" % (cfs(before[nm]), cfs(after[nm])))
                RESTORE_DESCR.append(dict(analysis=an, aircraft=nm, rate_frame=before[nm]["rate_frame"]))
                chk.count("restore-frame=" + before[nm]["rate_frame"])
        bad = api.compare(before, after, rtol=1e-9, atol=1e-9)
        if bad:
            what = bad[0][0].split("/")[1].split("[")[0]
            chk.violation("state-changed:%s:%s%s" % (an, what, ":wind" if wind else ""),
                          dict(kind="side-effect", analysis=an, scene=sd, aircraft=acs, target=target, differences=bad[:6]))
            continue
        after_fm = api.solve(sc)
        bad = api.compare(before_fm, after_fm, rtol=1e-6, atol=1e-8)
        if bad:
            chk.violation("solve-changed:%s%s" % (an, ":wind" if wind else ""),
                          dict(kind="side-effect", analysis=an, scene=sd, aircraft=acs, target=target, differences=bad[:6]))


def set_state_sweep(chk, MX, n):
    """trims asked to set the state leave the aircraft exactly in the state they return; other controls are preserved"""
    rng = chk.rng
    H = MX.helpers
    for i in range(n):
        kind = ("pitch_trim", "pitch_trim_orient", "target_CL")[i % 3]
        wind = rng.random() < 0.5
        sd, acs = scene_for(chk, MX, False, wind)
        name = acs[0][0]
        try:
            sc = gen.build_scene(MX, sd, acs)
        except Exception:
            continue
        before = snapshot(sc)[name]
        a = sc._airplanes[name]
        W = np.array(sc._get_wind(a.p_bar), dtype=float)
        try:
            if kind == "pitch_trim":
                ret = sc.pitch_trim(aircraft=name, set_trim_state=True)
            elif kind == "pitch_trim_orient":
                ret = sc.pitch_trim_using_orientation(aircraft=name, set_trim_state=True)
            else:
                given = {"aileron": 1.5, "elevator": -2.0}
                ret = sc.target_CL(CL=0.45, set_state=True, control_state=given)
        except Exception as e:
            if type(e).__name__ in ("MaxIterationError", "SolverNotConvergedError"):
                chk.count("trim_nonconverged=" + kind)
                continue
            chk.violation("trim-raises:%s" % kind, dict(kind="set-state", trim=kind, scene=sd, aircraft=acs, error=repr(e)))
            continue
        after = snapshot(sc)[name]
        chk.case(dict(trim=kind, wind=wind, i=i), nontrivial=True)
        chk.count("trim_set=%s/%s" % (kind, "wind" if wind else "still"))
        al, be, V = a.get_aerodynamic_state(v_wind=W)
        a0 = sc._airplanes[name]
        vb0 = H.quat_trans(np.array(before["q"]), np.array(before["v"]) - W)
        V0 = float(np.linalg.norm(vb0))
        be0 = math.degrees(math.asin(vb0[1] / V0))
        problems = []
        if kind == "pitch_trim":
            r = ret[name]
            if abs(al - float(r["alpha"])) > 1e-7:
                problems.append(("alpha-not-returned-value", al, float(r["alpha"])))
            if abs(after["controls"]["elevator"] - float(r["elevator"])) > 1e-9:
                problems.append(("pitch-control-not-returned-value", after["controls"]["elevator"], float(r["elevator"])))
            for c in ("aileron", "rudder"):
                if abs(after["controls"][c] - before["controls"][c]) > 1e-12:
                    problems.append(("other-control-changed:" + c, before["controls"][c], after["controls"][c]))
            if abs(V - V0) > 1e-7 * V0 or abs(be - be0) > 1e-6:
                problems.append(("airspeed-or-beta-changed", (V0, be0), (V, be)))
            if not np.allclose(after["p"], before["p"]) or not np.allclose(after["q"], before["q"]) or not np.allclose(after["w"], before["w"]):
                problems.append(("pose-or-rates-changed", None, None))
        elif kind == "pitch_trim_orient":
            rs, rc = ret
            if not np.allclose(after["q"], rs["orientation"], atol=1e-10) or not np.allclose(after["p"], rs["position"], atol=1e-9):
                problems.append(("pose-not-returned-value", after["q"], rs["orientation"]))
            vb = H.quat_trans(np.array(after["q"]), np.array(after["v"]))
            if not np.allclose(vb, rs["velocity"], rtol=1e-8, atol=1e-8):
                problems.append(("velocity-not-returned-value", vb.tolist(), rs["velocity"]))
            if not np.allclose(after["v"], before["v"], rtol=1e-9, atol=1e-8):
                problems.append(("earth-fixed-velocity-changed", before["v"], after["v"]))
            e0, e1 = api.quat_to_euler_deg(before["q"]), api.quat_to_euler_deg(after["q"])

            def wrap(x):
                return (x + 180.0) % 360.0 - 180.0
            # the same attitude has two Euler triples, (phi, theta, psi) and (phi+180, 180-theta, psi+180): a trim that carries the
            # elevation across +-90 degrees keeps bank and heading although the principal angles jump
            same = abs(wrap(e0[0] - e1[0])) <= 1e-6 and abs(wrap(e0[2] - e1[2])) <= 1e-6
            flipped = abs(wrap(e0[0] - e1[0] - 180.0)) <= 1e-6 and abs(wrap(e0[2] - e1[2] - 180.0)) <= 1e-6
            if not (same or flipped):
                problems.append(("bank-or-heading-changed", e0, e1))
            for c in ("aileron", "rudder"):
                if abs(after["controls"][c] - before["controls"][c]) > 1e-12:
                    problems.append(("other-control-changed:" + c, before["controls"][c], after["controls"][c]))
            if abs(after["controls"]["elevator"] - float(rc["elevator"])) > 1e-9:
                problems.append(("pitch-control-not-returned-value", after["controls"]["elevator"], float(rc["elevator"])))
        else:
            if abs(al - float(ret)) > 1e-7:
                problems.append(("alpha-not-returned-value", al, float(ret)))
            if abs(V - V0) > 1e-7 * V0 or abs(be - be0) > 1e-6:
                problems.append(("airspeed-or-beta-changed", (V0, be0), (V, be)))
        if problems:
            chk.violation("set-state:%s:%s%s" % (kind, problems[0][0], ":wind" if wind else ""),
                          dict(kind="set-state", trim=kind, scene=sd, aircraft=acs, problems=problems, returned=ret))


def target_first_guess(chk, MX, n):
    """target_CL(set_state=False) with a target that its first guess (alpha = 0, the given controls) already meets: the state comes back"""
    rng = chk.rng
    for it in range(n):
        sd, acs = scene_for(chk, MX, False, it % 2 == 0)
        name, ac, st, cs = acs[0]
        if isinstance(st.get("velocity"), list):
            st = {"velocity": 90.0, "alpha": 3.0, "beta": st.get("beta", 1.0)}
        st = dict(st, alpha=3.0)
        try:
            probe = gen.build_scene(MX, sd, [(name, ac, dict(st, alpha=0.0), {})])
            CL0 = float(probe.solve_forces(dimensional=False)[name]["total"]["CL"])
            sc = gen.build_scene(MX, sd, [(name, ac, st, cs)])
            before = snapshot(sc)
            sc.target_CL(CL=CL0, set_state=False, control_state={})
            after = snapshot(sc)
        except Exception as e:
            chk.count("first_guess_error=" + type(e).__name__)
            continue
        chk.case(dict(analysis="target_CL_first_guess", it=it), nontrivial=True)
        bad = api.compare(before, after, rtol=1e-9, atol=1e-9)
        if bad:
            chk.violation("state-changed:target_CL:first-guess-meets-target", dict(kind="side-effect", analysis="target_CL(set_state=False)", scene=sd, aircraft=acs,
                                                                                 target=CL0, differences=bad[:6]))
            return


def run(chk):
    MX = common.setup_env()
    import machupX.helpers as H
    MX.helpers = H
    chk.proofs(extra_trusted=["sweep: aircraft state (velocity, rates, pose, controls, flap deflections) and solve_forces before/after every analysis",
                              "oracles: solve_forces treated as a function of the scene state"])
    side_effect_sweep(chk, MX, chk.q(80, 400))
    set_state_sweep(chk, MX, chk.q(9, 90))
    target_first_guess(chk, MX, chk.q(2, 10))
    failing, nfiles, errors = common.run_cases("C08", IMPORTS, [], RESTORE_CASES)
    chk.cov["correspondence_cases"] = len(RESTORE_CASES)
    chk.cov["traces_validated_against_impl"] = len(RESTORE_CASES)
    if errors:
        chk.fail_obligation("correspondence:C08(case files do not compile)", "\n".join(errors)[-3000:])
    elif failing and not chk.violations:
        chk.fail_obligation("correspondence:Model/Restore.v", json.dumps(dict(first=RESTORE_DESCR[failing[0]], n=len(failing)), default=str)[:3000])
    return chk.finish(rule="each query-type analysis on generated scenes (1-2 aircraft, wind in 60 %, random attitude, non-zero controls): state of every "
                           "aircraft and solve_forces before vs after; each trim with set state: state after = returned values, other controls, airspeed, "
                           "sideslip, pose preserved")


def replay(chk, path):
    r = json.load(open(path))
    print(json.dumps(r, indent=1, default=str)[:3000])
    return 0
