"""C05 — dynamic similarity: coefficients invariant under length, speed and density scaling."""
import math, copy, json
import numpy as np
from harness import common, gen, api

LEVEL = "proof"


def scale_aircraft(ac, k):
    m = copy.deepcopy(ac)
    m["CG"] = [c * k for c in ac["CG"]]
    if "reference" in m:
        r = m["reference"]
        m["reference"] = dict(area=r["area"] * k * k, longitudinal_length=r["longitudinal_length"] * k, lateral_length=r["lateral_length"] * k)
    for w in m["wings"].values():
        if "semispan" in w:
            w["semispan"] *= k
        if "quarter_chord_locs" in w:
            w["quarter_chord_locs"] = [[c * k for c in p] for p in w["quarter_chord_locs"]]
        ch = w.get("chord", 1.0)
        if isinstance(ch, list) and ch and ch[0] == "elliptic":
            w["chord"] = ["elliptic", ch[1] * k]
        elif isinstance(ch, list):
            w["chord"] = [[r_[0], r_[1] * k] for r_ in ch]
        else:
            w["chord"] = ch * k
        c = w.get("connect_to")
        if c:
            for key in ("dx", "dy", "dz", "y_offset"):
                if key in c:
                    c[key] *= k
    return m


def check_geometry_scale(a, b, k):
    """H_geom_scale: the arrays generated for the scaled description are the scaled arrays (incl. Reid effective lifting lines and joints)"""
    for name, p in (("PC", 1), ("P0", 1), ("P1", 1), ("P0_joint", 1), ("P1_joint", 1), ("P0_eff", 1), ("P1_eff", 1), ("P0_joint_eff", 1),
                    ("P1_joint_eff", 1), ("dl", 1), ("c_bar", 1), ("dS", 2), ("u_a", 0), ("u_n", 0), ("u_s", 0), ("section_sweep", 0)):
        x, y = np.array(getattr(a, name)), np.array(getattr(b, name))
        if not np.allclose(x * k ** p, y, rtol=1e-9, atol=1e-9 * k ** p):
            return name
    return None


def coefficients(fm, name="a"):
    return {part: {k: (v if part == "total" else v["total"]) for k, v in fm[name][part].items() if k[0] == "C"} for part in ("inviscid", "viscous", "total")}


def dimensional(fm, name="a"):
    return {k: v for k, v in fm[name]["total"].items() if k[0] in "FM"}


def run(chk):
    MX = common.setup_env()
    chk.proofs(extra_trusted=[
        "H_geom_scale (the arrays generated for the k-scaled description are the k-scaled arrays, incl. the Reid blending and joint construction) "
        "is validated on the live Airplane arrays of every generated pair",
        "sweep: coefficients and derivatives of scaled twins (length, airspeed, density); linear airfoils are Reynolds- and Mach-independent"])
    rng = chk.rng
    n = chk.q(60, 300)
    for it in range(n):
        mode = ("length", "speed", "density", "length")[it % 4]
        sd = gen.gen_scene(rng, chk.hist, rho="const", wind=False)
        ac = gen.gen_aircraft(rng, chk.hist, max_wings=3, sides=("both", "both", "left", "right"), qc_points_p=0.15)
        st = gen.gen_state(rng, chk.hist, ang=6.0, pose=rng.random() < 0.5, vec_velocity_p=0.3, rate_frames=("body",))
        cs = gen.gen_controls(rng, ac)
        if it % 5 == 0:
            # lifting line on Kuchemann's locus of aerodynamic centres (needs a constant sweep): its offset is a fraction of the chord
            for w in ac["wings"].values():
                if "semispan" in w:
                    w["sweep"] = round(rng.uniform(8.0, 30.0), 2)
                    w["ll_offset"] = "kuchemann"
                    chk.count("kuchemann-forced")
                    break
        k = rng.choice([0.1, 0.37, 2.0, 3.5, 12.0])
        if it == 4:
            # a tail in the plane of the wing at a small angle of attack: its control points pass close to the wing's trailing vortices.  The
            # solver option 'impingement_threshold' is documented as the threshold of a warning; it must not decide which vortices act
            ac = gen.simple_wing_aircraft(N=4, reid=False)
            ac["wings"]["h_stab"]["connect_to"]["dz"] = 0.0
            st, cs, k = {"velocity": 100.0, "alpha": 1.0, "beta": 0.0}, {}, 0.3
            sd.setdefault("solver", {})["impingement_threshold"] = 1e-3
            chk.count("forced=coplanar-tail-impingement-threshold")
        if it == 8:
            # winglets staggered against the tip of the wing by a few thousandths of a chord: whether two segments share one lifting line is a
            # matter of the description, not of how large the offset is in the unit of length
            ac = gen.simple_wing_aircraft(N=4, reid=True, sweep=20.0, dihedral=5.0)
            del ac["wings"]["v_stab"]
            ac["wings"]["winglet"] = {"ID": 4, "side": "both", "is_main": True, "connect_to": {"ID": 1, "location": "tip", "dx": -0.004}, "semispan": 0.8,
                                      "chord": [[0.0, 1.0], [1.0, 0.5]], "sweep": 35.0, "dihedral": 60.0, "airfoil": "af0", "grid": {"N": 3, "reid_corrections": True}}
            st, cs, k = {"velocity": 100.0, "alpha": 4.0, "beta": 2.0}, {}, 0.2
            chk.count("forced=staggered-winglet")
        sd2, ac2, st2 = copy.deepcopy(sd), ac, copy.deepcopy(st)
        fscale, mscale = 1.0, 1.0
        if mode == "length":
            ac2 = scale_aircraft(ac, k)
            if "angular_rates" in st2:
                st2["angular_rates"] = [x / k for x in st["angular_rates"]]
            if "position" in st2:
                st2["position"] = [x * k for x in st["position"]]
            fscale, mscale = k * k, k ** 3
        elif mode == "speed":
            if (it // 4) % 2 == 0 and not isinstance(st["velocity"], list):
                # the same steady wind at both airspeeds (V, alpha, beta are air-relative): the air-relative flow is similar,
                # the ground speed is not
                wv = [round(rng.uniform(-20, 20), 2), round(rng.uniform(-20, 20), 2), round(rng.uniform(-4, 4), 2)]
                sd["scene"]["atmosphere"]["V_wind"] = wv
                sd2 = copy.deepcopy(sd)
                chk.count("speed-with-wind")
            if isinstance(st["velocity"], list):
                st2["velocity"] = [x * k for x in st["velocity"]]
            else:
                st2["velocity"] = st["velocity"] * k
            if "angular_rates" in st2:
                st2["angular_rates"] = [x * k for x in st["angular_rates"]]
            fscale, mscale = k * k, k * k
        else:
            rho = sd["scene"]["atmosphere"].get("rho", 0.0023769 if sd["units"] == "English" else 1.225)
            sd["scene"]["atmosphere"]["rho"] = rho
            sd2["scene"]["atmosphere"]["rho"] = rho * k
            fscale, mscale = k, k
        extra_a, extra_b = [], []
        if it % 6 == 1 and mode == "length":
            # a formation: the wingman's position (and size) scales with everything else; large k carries the separation past any
            # absolute distance a shortcut might use
            k = rng.choice([0.1, 12.0, 20.0])
            ac2 = scale_aircraft(ac, k)
            st2 = copy.deepcopy(st)
            if "angular_rates" in st2:
                st2["angular_rates"] = [x / k for x in st["angular_rates"]]
            st.setdefault("position", [0.0, 0.0, 0.0])
            st2["position"] = [x * k for x in st["position"]]
            fscale, mscale = k * k, k ** 3
            wst = {"velocity": st["velocity"] if not isinstance(st["velocity"], list) else float(np.linalg.norm(st["velocity"])), "alpha": 2.0,
                   "position": [st["position"][0] - 55.0, st["position"][1] + 30.0, st["position"][2] + 4.0]}
            wac = gen.simple_wing_aircraft(N=3, b=3.0)
            extra_a = [("w", wac, wst, {})]
            extra_b = [("w", scale_aircraft(wac, k), dict(wst, position=[x * k for x in wst["position"]]), {})]
            chk.count("formation")
        # the convergence threshold is an absolute residual (force per unit density): scale it with the loads
        sd2 = copy.deepcopy(sd2)
        sd2.setdefault("solver", {})["convergence"] = sd.get("solver", {}).get("convergence", 1e-10) * max(1.0, fscale if mode != "density" else 1.0)
        try:
            sa = gen.build_scene(MX, sd, [("a", ac, st, cs)] + extra_a)
            sb = gen.build_scene(MX, sd2, [("a", ac2, st2, cs)] + extra_b)
        except Exception as e:
            chk.count("error=" + type(e).__name__)
            continue
        chk.case(dict(mode=mode, k=k, reid=[w["grid"].get("reid_corrections") for w in ac["wings"].values()], it=it), nontrivial=(k != 1.0))
        chk.count("mode=" + mode)
        if mode == "length":
            g = check_geometry_scale(sa._airplanes["a"], sb._airplanes["a"], k)
            if g:
                chk.violation("geometry:%s" % g, dict(kind="similarity", what="H_geom_scale fails for " + g, scale=k, scene=sd, aircraft=ac))
                continue
        try:
            fa, fb = api.solve(sa), api.solve(sb)
        except Exception as e:
            if type(e).__name__ == "SolverNotConvergedError":
                chk.count("nonconverged")
                continue
            chk.violation("raises", dict(kind="similarity", mode=mode, scale=k, scene=sd, aircraft=ac, state=st, error=repr(e)))
            continue
        bad = api.compare(coefficients(fa), coefficients(fb), rtol=5e-6, atol=5e-8)
        if bad:
            chk.violation("%s:coefficients" % mode, dict(kind="similarity", mode=mode, scale=k, scene=sd, aircraft=ac, state=st, controls=cs, differences=bad[:8]))
            continue
        da, db = dimensional(fa), dimensional(fb)
        Fref = max(abs(v) for kk, v in da.items() if kk[0] == "F") + 1e-12
        Mref = max(abs(v) for kk, v in da.items() if kk[0] == "M") + 1e-12
        for kk in da:
            s_, ref = (fscale, Fref) if kk[0] == "F" else (mscale, Mref)
            if not abs(db[kk] - da[kk] * s_) <= 5e-6 * ref * s_:
                chk.violation("%s:dimensional" % mode, dict(kind="similarity", mode=mode, scale=k, key=kk, base=da[kk], scaled=db[kk], expected=da[kk] * s_,
                                                             scene=sd, aircraft=ac, state=st))
                break
        # nondimensional derivatives
        if it % 3 == 0:
            try:
                # the rate step of the damping derivatives is dimensional: keep the *nondimensional* perturbation the same
                step = 0.005 / k if mode == "length" else (0.005 * k if mode == "speed" else 0.005)
                d1 = sa.derivatives(**api.ALL_FRAMES, dtheta_dot=0.005)
                d2 = sb.derivatives(**api.ALL_FRAMES, dtheta_dot=step)
            except Exception as e:
                chk.count("derivs_error=" + type(e).__name__)
                continue
            bad = api.compare(d1, d2, rtol=2e-4, atol=2e-6)
            if bad:
                chk.violation("%s:derivatives" % mode, dict(kind="similarity", mode=mode, scale=k, scene=sd, aircraft=ac, state=st, differences=bad[:8]))
    return chk.finish(rule="generated aircraft (Reid on/off, chains, one-sided segments, quarter-chord points) at random states, scaled in length "
                           "(k in 0.1..12, rates/k), airspeed (rates x k) or density: live geometry arrays scale; coefficients equal, forces x k^2 "
                           "(rho: x k), moments x k^3; nondimensional derivatives on every third case")


def replay(chk, path):
    print(json.dumps(json.load(open(path)), indent=1, default=str)[:3000])
    return 0
