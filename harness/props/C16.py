"""C16 — section coefficients are the span-wise linear blend of the specified airfoils."""
import math, copy, json
import numpy as np
from harness import common, gen, api
from harness.common import fhex, flist, cbool

LEVEL = "proof"
IMPORTS = ["From MuxV Require Import Base.Num Base.FInst Model.AirfoilBlend Model.AirfoilBlendF."]
FUNCS = ["get_CL", "get_CD", "get_Cm", "get_CLa", "get_aL0", "get_CLRe", "get_CLM"]


def functional_airfoil(rng, kRe=None):
    """an airfoil given by functions with Reynolds- and Mach-dependence (airfoil_db type 'functional'): the sensitivities CL,Re and CL,M
    are then non-zero and different from each other"""
    a0, aL0, kRe_, cd0, cm0 = rng.uniform(5.6, 6.6), rng.uniform(-0.06, 0.0), rng.uniform(0.02, 0.08), rng.uniform(0.005, 0.01), rng.uniform(-0.08, 0.0)
    kRe = kRe_ if kRe is None else kRe

    def CL(**kw):
        al, Re, M = kw.get("alpha", 0.0), kw.get("Rey", 1e6), kw.get("Mach", 0.0)
        df, cf = kw.get("trailing_flap_deflection", 0.0), kw.get("trailing_flap_fraction", 0.0)
        return a0 * (al - aL0 + 0.6 * cf * df) * (1.0 + kRe * np.log10(np.asarray(Re, dtype=float) / 1e6)) / np.sqrt(1.0 - np.asarray(M, dtype=float) ** 2)

    def CD(**kw):
        return cd0 + 0.01 * CL(**kw) ** 2

    def Cm(**kw):
        return cm0 + 0.01 * kw.get("alpha", 0.0) + 0.0 * CL(**kw)
    return {"type": "functional", "CL": CL, "CD": CD, "Cm": Cm, "geometry": {"NACA": "0010"}}


def rand_wing(rng, hist):
    nst = rng.randint(2, 4)
    afs = gen.gen_airfoils(rng, nst, hist)
    if rng.random() < 0.35:
        afs = {k: functional_airfoil(rng) for k in afs}
        if hist is not None:
            hist["airfoil_type=functional"] = hist.get("airfoil_type=functional", 0) + 1
    names = list(afs)
    N = rng.randint(3, 8)
    grid = gen.gen_grid(rng, hist, N=N, reid=False)
    # optionally put stations exactly on control points
    inner = sorted(round(rng.uniform(0.15, 0.85), 3) for _ in range(nst - 2))
    w = {"ID": 1, "side": rng.choice(["both", "left", "right"]), "is_main": True, "semispan": 4.0, "chord": [[0.0, 1.0], [1.0, 0.6]],
         "grid": grid, "control_surface": {"chord_fraction": 0.25, "root_span": 0.2, "tip_span": 0.9, "control_mixing": {"flap": 1.0}}}
    stations = [0.0] + inner + [1.0]
    ac = {"CG": [0, 0, 0], "weight": 10.0, "controls": {"flap": {"is_symmetric": True}}, "airfoils": afs,
          "reference": {"area": 8.0, "longitudinal_length": 1.0, "lateral_length": 8.0},
          "wings": {"w": w}}
    return ac, stations, names


def end_to_end(chk, MX, n):
    """after a solve, what distributions() reports per control point is the span-wise blend of the airfoils evaluated at that control
    point's own reported angle of attack, Reynolds and Mach number - for every solver option combination"""
    rng = chk.rng
    for it in range(n):
        ac, stations, names = rand_wing(rng, None)
        ac["airfoils"] = {k: functional_airfoil(rng, kRe=rng.uniform(0.25, 0.4)) for k in ac["airfoils"]}     # strongly Reynolds-dependent sections
        w = ac["wings"]["w"]
        w["sweep"], w["dihedral"] = rng.choice([0.0, 20.0, 30.0]), rng.choice([0.0, 6.0])
        w["airfoil"] = [[s_, names[k % len(names)]] for k, s_ in enumerate(stations)]
        solver = gen.gen_solver(rng, chk.hist)
        if it % 2 == 0:
            solver["use_in_plane"] = False
        # the swept-section model rescales the section coefficients after the airfoils have been evaluated: it is switched off here so that the
        # reported coefficients are the airfoils' own
        solver["use_swept_sections"] = False
        sd_visc = 1.57e-4
        sd = {"units": "English", "solver": solver, "scene": {"atmosphere": {"rho": 0.0023769, "viscosity": sd_visc, "speed_of_sound": 1116.0}}}
        st = {"velocity": rng.choice([60.0, 250.0, 480.0]), "alpha": rng.uniform(1.0, 5.0), "beta": rng.uniform(-4.0, 4.0),
              "angular_rates": [rng.uniform(-0.6, 0.6), rng.uniform(-0.2, 0.2), rng.uniform(-0.3, 0.3)]}     # local speed differs from the freestream
        try:
            sc = gen.build_scene(MX, sd, [("a", ac, st, {"flap": rng.choice([0.0, 3.0])})])
            d = sc.distributions()["a"]
        except Exception as e:
            chk.count("end_to_end_error=" + type(e).__name__)
            continue
        chk.case(dict(kind="end-to-end", solver=solver, it=it), nontrivial=True)
        for seg in sc._airplanes["a"].segments:
            dd = d[seg.name]
            al, Re, M = (np.array(dd[k], dtype=float) for k in ("alpha", "Re", "M"))
            spans = [float(x) for x in seg._airfoil_spans]
            cps = [float(x) for x in seg.cp_span_locs]
            for key, fn in (("section_CL", "get_CL"), ("section_Cm", "get_Cm"), ("section_aL0", "get_aL0")):     # (the parasitic drag is evaluated at the total-velocity Reynolds number, which is not reported)
                kw_ = dict(Rey=Re, Mach=M, trailing_flap_deflection=seg._delta_flap, trailing_flap_fraction=seg._cp_c_f)
                if fn != "get_aL0":
                    kw_["alpha"] = al
                vals = [np.array(getattr(af, fn)(**kw_), dtype=float) * np.ones(seg.N) for af in seg._airfoils]
                exp = np.array([np.interp(cps[i], spans, [v[i] for v in vals]) for i in range(seg.N)])
                got = np.array(dd[key], dtype=float)
                if not np.allclose(got, exp, rtol=1e-4, atol=1e-7):
                    chk.violation("end-to-end:%s" % key, dict(kind="blend", aircraft={k: v for k, v in ac.items() if k != "airfoils"}, scene=sd, state=st, segment=seg.name, key=key,
                                                              reported=got, blend_at_reported_alpha_Re_M=exp, alpha=al, Re=Re, M=M))
                    return


def repeated_calls(chk, MX, n):
    """asking for the distributions again (same solution, other output options) gives the same section properties"""
    rng = chk.rng
    for it in range(n):
        ac, stations, names = rand_wing(rng, None)
        w = ac["wings"]["w"]
        w["sweep"], w["dihedral"] = rng.choice([20.0, 30.0]), 4.0
        w["airfoil"] = [[s_, names[k % len(names)]] for k, s_ in enumerate(stations)]
        sd = {"units": "English", "solver": {"type": "nonlinear"}, "scene": {"atmosphere": {"rho": 0.0023769}}}
        try:
            sc = gen.build_scene(MX, sd, [("a", ac, {"velocity": 80.0, "alpha": 3.0, "beta": 2.0}, {"flap": 3.0})])
            d1 = json.loads(json.dumps(sc.distributions()["a"], default=common._jsonable))
            sc.distributions(radians=False)
            d3 = json.loads(json.dumps(sc.distributions()["a"], default=common._jsonable))
        except Exception as e:
            chk.count("repeated_calls_error=" + type(e).__name__)
            continue
        chk.case(dict(kind="repeated-distributions", it=it), nontrivial=True)
        bad = api.compare(d1, d3, rtol=1e-12, atol=1e-14)
        if bad:
            chk.violation("repeated-distributions", dict(kind="blend", aircraft={k: v for k, v in ac.items() if k != "airfoils"}, differences=bad[:6]))
            return


def run(chk):
    MX = common.setup_env()
    chk.proofs(extra_trusted=["correspondence: Model/AirfoilBlend.v on binary64 vs WingSegment._get_control_point_coef (1e-13) and _airfoil_slices (exact), "
                              "airfoil_db values supplied per (control point, airfoil)",
                              "airfoil_db is an oracle: any function of the control point's own arguments"])
    rng = chk.rng
    cases, descr = [], []
    n = chk.q(30, 300)
    for it in range(n):
        ac, stations, names = rand_wing(rng, chk.hist)
        on_cp = rng.random() < 0.35
        sc0 = gen.build_scene(MX, {"scene": {"atmosphere": {"rho": 0.0023769}}}, [("a", dict(ac, wings={"w": dict(ac["wings"]["w"], airfoil=names[0])}), {"velocity": 50.0}, {})])
        seg0 = sc0._airplanes["a"].segments[0]
        if on_cp and len(stations) > 2:
            cps = sorted(float(x) for x in seg0.cp_span_locs)
            for k in range(1, len(stations) - 1):
                stations[k] = cps[min(len(cps) - 1, k)]
            stations = sorted(set(stations))
        step_at = None
        if it == 1:
            # (enumerated) a step change of the airfoil, written with a repeated station, exactly on a control point of a two-sided wing
            # (linear grid, N = 5: control point at 0.5): either neighbour is the section's airfoil there, on both sides the same one
            ac["wings"]["w"]["grid"] = {"N": 5, "distribution": "linear", "reid_corrections": False}
            ac["wings"]["w"]["side"] = "both"
            while len(names) < 2:
                names.append(names[0])
            stations, step_at = [0.0, 0.5, 0.5, 1.0], 0.5
            chk.count("forced=step-on-control-point")
        chk.count("stations=%d" % len(stations))
        chk.count("station_on_cp=%s" % on_cp)
        afl = [[s, names[k % len(names)]] for k, s in enumerate(stations)]
        if step_at is not None:
            afl = [[0.0, names[0]], [0.5, names[0]], [0.5, names[1]], [1.0, names[1]]]
        if it == 2 and len(names) >= 2:
            # (enumerated) the same airfoil at root and tip, another one in between
            mid_ = stations[1] if len(stations) > 2 else 0.4
            afl = [[0.0, names[0]], [mid_, names[1]], [1.0, names[0]]]
            chk.count("forced=same-airfoil-at-both-ends")
        ac["wings"]["w"]["airfoil"] = afl
        try:
            sc = gen.build_scene(MX, {"scene": {"atmosphere": {"rho": 0.0023769}}}, [("a", ac, {"velocity": 50.0, "alpha": 2.0}, {"flap": rng.choice([0.0, 4.0, -7.0])})])
        except Exception as e:
            chk.violation("build-raises", dict(kind="blend", aircraft=ac, error=repr(e)))
            continue
        a = sc._airplanes["a"]
        for seg in a.segments:
            N = seg.N
            alpha = np.array([rng.uniform(-0.15, 0.25) for _ in range(N)])
            Re = np.array([rng.uniform(2e5, 3e6) for _ in range(N)])
            M = np.array([rng.uniform(0.0, 0.4) for _ in range(N)])
            spans = [float(x) for x in seg._airfoil_spans]
            cps = [float(x) for x in seg.cp_span_locs]
            left = seg.side == "left"
            sl = "[" + "; ".join("(%d%%nat, %d%%nat)" % (s.start, s.stop) for s in seg._airfoil_slices) + "]"
            cases.append("chk_slices %s %s %s %s" % (cbool(left), flist(cps), flist(spans), sl))
            descr.append(dict(what="slices", side=seg.side, cps=cps, spans=spans))
            for fn in FUNCS:
                # through the public per-control-point getter (get_cp_CL, ..., get_cp_CLM; get_cp_aL0 takes no alpha)
                pub = getattr(seg, "get_cp_" + fn[4:])
                got = np.array(pub(Re, M) if fn == "get_aL0" else pub(alpha, Re, M), dtype=float) * np.ones(N)
                vals = []
                for k, af in enumerate(seg._airfoils):
                    v = getattr(af, fn)(alpha=alpha if fn != "get_aL0" else np.zeros(N), Rey=Re, Mach=M, trailing_flap_deflection=seg._delta_flap,
                                        trailing_flap_fraction=seg._cp_c_f)
                    vals.append(np.array(v, dtype=float) * np.ones(N))
                fvals = "[" + "; ".join(flist([vals[k][i] for k in range(len(vals))]) for i in range(N)) + "]"
                # tolerance predicate built from chk_blend's pieces
                cases.append("all2 (fclose 0x1p-43 0x1p-60) (map (blend_at %s %s %s (fv_of %s)) (seq 0 %d)) %s" % (
                    cbool(left), flist(cps), flist(spans), fvals, N, flist(got)))
                descr.append(dict(what="blend:" + fn, side=seg.side, cps=cps, spans=spans))
                # independent statement of the property
                exp = np.array([np.interp(cps[i], spans, [vals[k][i] for k in range(len(vals))]) for i in range(N)])
                if step_at is not None:
                    # on the step itself either of the two airfoils may be taken - the one taken is checked to be the same on both halves below
                    for i in range(N):
                        if cps[i] == step_at and (abs(got[i] - vals[1][i]) <= 1e-10 * abs(vals[1][i]) + 1e-12):
                            exp[i] = vals[1][i]
                if not np.allclose(got, exp, rtol=1e-10, atol=1e-12):
                    chk.violation("blend:%s:%s" % (seg.side, fn), dict(kind="blend", aircraft=ac, segment=seg.name, function=fn, got=got, expected=exp,
                                                                         cps=cps, spans=spans))
            chk.case(dict(side=seg.side, N=N, spans=spans, grid=ac["wings"]["w"]["grid"].get("distribution", "cosine"), it=it), nontrivial=len(spans) >= 2)
            chk.count("side=" + seg.side)
        # default airfoil = the first listed
        ac2 = copy.deepcopy(ac)
        del ac2["wings"]["w"]["airfoil"]
        ac2["airfoils"] = {k: ac2["airfoils"][k] for k in reversed(list(ac2["airfoils"]))}     # listed order != alphabetical order
        sc2 = gen.build_scene(MX, {"scene": {"atmosphere": {"rho": 0.0023769}}}, [("a", ac2, {"velocity": 50.0}, {})])
        for seg in sc2._airplanes["a"].segments:
            if seg._airfoils[0].name != list(ac2["airfoils"].keys())[0] or seg._num_airfoils != 1:
                chk.violation("default-airfoil", dict(kind="blend", aircraft=ac2, used=seg._airfoils[0].name))
    end_to_end(chk, MX, chk.q(8, 60))
    repeated_calls(chk, MX, chk.q(2, 10))
    failing, nfiles, errors = common.run_cases("C16", IMPORTS, [], cases)
    chk.cov["traces_validated_against_impl"] = len(cases)
    chk.cov["correspondence_cases"] = len(cases)
    if errors:
        chk.fail_obligation("correspondence:C16(case files do not compile)", "\n".join(errors)[-3000:])
    elif failing and not chk.violations:
        chk.fail_obligation("correspondence:Model/AirfoilBlend.v:" + descr[failing[0]]["what"], json.dumps(dict(first=descr[failing[0]], n=len(failing)), default=str)[:3000])
    return chk.finish(rule="wings with 2-4 airfoil stations (interior stations random or placed exactly on control points), all three grid types, N 3-8, "
                           "left/right/both, flaps deflected or not; all seven coefficient getters at random alpha/Re/Mach per control point")


def replay(chk, path):
    print(json.dumps(json.load(open(path)), indent=1, default=str)[:3000])
    return 0
