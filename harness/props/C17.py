"""C17 — 1976 standard atmosphere, profile tables, per-section sampling."""
import math, json, copy
import numpy as np
from harness import common, gen, api, live
from harness.common import fhex, flist, ftable, ftable2, cbool

LEVEL = "proof"
IMPORTS = ["From MuxV Require Import Base.Num Base.FInst Base.Vec3 Base.Interp Model.Atmos Model.AtmosF Model.FieldInterp Model.FieldInterpF."]
WHICH = ["T", "P", "rho", "mu", "a", "nu"]


def oracle_tables(sa, Z, arraymode):
    """(exp table, pow table) for one geometric height Z (metres), mirroring the argument computations of
    standard_atmosphere.py; results from NumPy/Python exactly as the code would call them."""
    H = (sa._r_0 * Z) / (sa._r_0 + Z)
    et, pt = [], []
    Hb, L, Tm = [float(x) for x in sa._H_b], [float(x) for x in sa._L_M_b], [float(x) for x in sa._T_M_b]
    for b in range(7):
        if not (H > Hb[b]):
            break
        Tb = sa._T_0 + Tm[b] + 273.15
        Hlim = min(H, Hb[b + 1])
        if abs(L[b]) < 1e-6:
            arg = (-sa._g_0_prime * sa._M_0 * (Hlim - Hb[b]) / (sa._R_star * Tb))
            et.append((arg, float(np.exp(arg))))
        else:
            e = (sa._g_0_prime * sa._M_0) / (sa._R_star * L[b])
            base = Tb / (Tb + L[b] * (Hlim - Hb[b]))
            pt.append((base, e, float(base ** e)))
    # T**1.5 for the viscosity (SI temperature; the English path converts back with *5/9 which we mirror)
    return H, et, pt


def T_SI_py(sa, Z):
    H = (sa._r_0 * Z) / (sa._r_0 + Z)
    return float(np.interp(H, sa._H_b, sa._T_M_b) + sa._T_0 + 273.15)


def atmosphere_cases(chk, n):
    from machupX.standard_atmosphere import StandardAtmosphere
    rng = chk.rng
    sa = {False: StandardAtmosphere("SI"), True: StandardAtmosphere("English")}
    cases, descr = [], []
    special = [0.0, 11000.0, 20000.0, 32000.0, 47000.0, 51000.0, 71000.0, 84852.0, 86000.0, 11019.1, 71802.0, 79000.0, 85999.0, -500.0]
    for i in range(n):
        en = rng.random() < 0.5
        which = rng.randrange(6)
        if i < len(special) * 2:
            Z = special[i // 2]
            en = bool(i % 2)
        else:
            Z = rng.choice([rng.uniform(-1000.0, 86000.0), rng.uniform(60000.0, 86000.0), rng.uniform(70000.0, 86000.0)])
        h = Z / 0.3048 if en else Z
        if en:
            Z = h * 0.3048           # the model sees exactly what the code computes
            if Z > 86000.0:
                h = 86000.0 / 0.3048 * 0.999999
                Z = h * 0.3048
        arraymode = rng.random() < 0.4
        s = sa[en]
        f = getattr(s, WHICH[which])
        try:
            if arraymode:
                val = float(np.asarray(f(np.array([h, h])))[1])
            else:
                val = float(f(h))
        except Exception as e:
            chk.violation("atmos:raises-in-range", dict(kind="atmos-raise", english=en, method=WHICH[which], h=h, error=repr(e)))
            continue
        H, et, pt = oracle_tables(s, Z, arraymode)
        # viscosity needs T**1.5 at the temperature value the code uses
        Tk = T_SI_py(s, Z)
        if en:
            Tk = (9.0 / 5.0 * Tk) * 5.0 / 9.0
        if arraymode:
            p15 = float((np.array([Tk, Tk]) ** 1.5)[1])
        else:
            p15 = float(Tk ** 1.5)
        pt = pt + [(Tk, 1.5, p15)]
        layer = sum(1 for hb in s._H_b[1:] if H > hb)
        chk.count("atm_layer=%d" % layer)
        chk.count("atm_method=%s_%s" % (WHICH[which], "EN" if en else "SI"))
        chk.count("atm_arraymode=%s" % arraymode)
        cases.append("chk_atm %s %s %s %d %s %s" % (ftable(et), ftable2(pt), cbool(en), which, fhex(h), fhex(val)))
        descr.append(dict(english=en, method=WHICH[which], h=h, value=val, array=arraymode, layer=layer))
    # range check
    for i in range(max(6, n // 20)):
        en = rng.random() < 0.5
        Z = rng.choice([86000.0, 86000.0001, 86001.0, 90000.0, 85999.9, 1e5, 5e5])
        h = Z / 0.3048 if en else Z
        try:
            sa[en].T(h)
            raised = False
        except IOError:
            raised = True
        except Exception:
            raised = True
        cases.append("chk_range %s %s %s" % (cbool(en), fhex(h), cbool(raised)))
        descr.append(dict(range_check=True, english=en, h=h, raised=raised))
        chk.count("atm_range=%s" % ("out" if (h * 0.3048 if en else h) > 86000.0 else "in"))
    return cases, descr


def array_consistency(chk, n):
    """every quantity evaluated on an ARRAY of altitudes that spans several layers equals the values obtained one altitude at a time
    (the scene samples all control points of all aircraft in one call)"""
    from machupX.standard_atmosphere import StandardAtmosphere
    rng = chk.rng
    for i in range(n):
        en = rng.random() < 0.5
        sa = StandardAtmosphere("English" if en else "SI")
        Zs = sorted(rng.uniform(-500.0, 85000.0) for _ in range(rng.randint(2, 6))) + [rng.choice([5000.0, 12000.0, 25000.0, 60000.0, 80000.0])]
        rng.shuffle(Zs)
        hs = np.array([z / 0.3048 if en else z for z in Zs])
        for name in WHICH:
            f = getattr(sa, name)
            try:
                arr = np.asarray(f(hs), dtype=float)
                one = np.array([float(f(float(h))) for h in hs])
            except Exception as e:
                chk.violation("atmos:array-raises", dict(kind="atmos-array", english=en, method=name, h=hs.tolist(), error=repr(e)))
                return
            chk.case(dict(kind="atmos-array", english=en, method=name, n=len(hs), i=i), nontrivial=True)
            if arr.shape != one.shape or not np.allclose(arr, one, rtol=1e-12, atol=0.0):
                chk.violation("atmos:array-vs-scalar:" + name, dict(kind="atmos-array", english=en, method=name, h=hs.tolist(), array=arr.tolist(), one_by_one=one.tolist()))
                return


def interp_cases(chk, n):
    rng = chk.rng
    cases, descr = [], []
    for i in range(n):
        m = rng.randint(2, 6)
        xs = sorted(rng.uniform(-10, 10) for _ in range(m))
        if rng.random() < 0.3 and m >= 3:
            k = rng.randrange(1, m - 1)
            xs[k + 0] = xs[k - 1]        # repeated node (step table)
        ys = [rng.uniform(-5, 5) for _ in range(m)]
        x = rng.choice([rng.uniform(-12, 12), rng.choice(xs), xs[0], xs[-1]])
        e = float(np.interp(x, xs, ys))
        cases.append("chk_interp %s %s %s %s" % (fhex(x), flist(xs), flist(ys), fhex(e)))
        descr.append(dict(interp=True, x=x, xs=xs, ys=ys))
    return cases, descr


def ode_search(chk, n):
    """Independent oracle: integrate the hydrostatic equation with the published constants numerically and
    compare with the implementation (both unit systems, all six quantities)."""
    from scipy.integrate import solve_ivp
    from machupX.standard_atmosphere import StandardAtmosphere
    Hb = [0.0, 11000.0, 20000.0, 32000.0, 47000.0, 51000.0, 71000.0, 84852.0]
    Lb = [-0.0065, 0.0, 0.001, 0.0028, 0.0, -0.0028, -0.002]
    g, M, R = 9.80665, 28.9644, 8314.32

    def Tm(H):
        T = 288.15
        for b in range(7):
            if H > Hb[b + 1]:
                T += Lb[b] * (Hb[b + 1] - Hb[b])
            else:
                return T + Lb[b] * (H - Hb[b])
        return T
    sol = solve_ivp(lambda H, y: [-g * M / (R * Tm(H)) * y[0]], (0.0, 84852.0), [math.log(101325.0)] and [101325.0],
                    dense_output=True, rtol=1e-11, atol=1e-14, max_step=200.0, method="DOP853")
    rng = chk.rng
    si, en = StandardAtmosphere("SI"), StandardAtmosphere("English")
    worst = 0.0
    pts = [0.0, 5000.0, 11000.0, 20000.0, 32000.0, 47000.0, 51000.0, 71000.0, 75000.0, 80000.0, 85000.0, 85990.0] + \
          [rng.uniform(0.0, 85990.0) for _ in range(n)]
    for Z in pts:
        H = 6356766.0 * Z / (6356766.0 + Z)
        P = float(sol.sol(H)[0])
        T = Tm(H)
        rho = P * M / (R * T)
        mu = 1.458e-6 * T ** 1.5 / (T + 110.4)
        a = math.sqrt(1.4 * R * T / M)
        exp = dict(T=T, P=P, rho=rho, mu=mu, a=a, nu=mu / rho)
        conv = dict(T=9.0 / 5.0, P=0.020885434, rho=0.00194032, mu=0.020885434, a=1 / 0.3048, nu=1 / 0.3048 ** 2)
        for k in WHICH:
            for name, s, h, c in (("SI", si, Z, 1.0), ("English", en, Z / 0.3048 * (1 - 1e-12), conv[k])):
                try:
                    got = float(getattr(s, k)(h))
                except Exception as e:
                    chk.violation("atmos:raises-in-range", dict(kind="atmos-raise", units=name, method=k, h=h, error=repr(e)))
                    return
                rel = abs(got - exp[k] * c) / abs(exp[k] * c)
                worst = max(worst, rel)
                chk.case(dict(kind="ode", Z=round(Z, 3), units=name, method=k), nontrivial=True)
                if not (rel < 2e-6):
                    layer = sum(1 for hb in Hb[1:] if H > hb)
                    chk.violation("atmos:%s-layer%d" % ("value", layer),
                                  dict(kind="atmos-value", units=name, method=k, geometric_altitude_m=Z, h_input=h, got=got,
                                       expected_from_hydrostatic_ode=exp[k] * c, rel_error=rel,
                                       note="independent numerical integration of dP/dH=-g0 M0 P/(R* T_M) with the 1976 constants"))
                    return
    chk.cov["ode_worst_rel_error"] = worst
    # English range: heights above 86 km must be rejected in both systems
    for name, s, h in (("SI", si, 86000.5), ("English", en, 86000.5 / 0.3048), ("English", en, 3.0e5)):
        try:
            v = s.rho(h)
            chk.violation("atmos:out-of-range-accepted-" + name, dict(kind="atmos-range", units=name, h=h, returned=float(v)))
        except Exception:
            pass


def field_tables(chk, MX, n):
    """wind / density FIELD tables (x, y, z, value...): piecewise-linear interpolation on the Delaunay triangulation of the nodes reproduces
    an affine field exactly (to rounding), so an affine table is an oracle for the column wiring, the array / single-point calling
    conventions and the per-control-point sampling without modelling scipy's triangulation"""
    rng = chk.rng
    for i in range(n):
        units = rng.choice(["English", "SI"])
        xs = [-300.0, 0.0, 400.0]
        ys = [-250.0, 50.0, 300.0]
        zs = [-3000.0, -1500.0, 0.0]
        A = np.array([[rng.uniform(-0.01, 0.01) for _ in range(3)] for _ in range(3)])       # V = V0 + A p
        V0 = np.array([rng.uniform(-12, 12), rng.uniform(-12, 12), rng.uniform(-3, 3)])
        r0 = 0.0023 if units == "English" else 1.2
        gr = np.array([rng.uniform(-1e-8, 1e-8), rng.uniform(-1e-8, 1e-8), r0 * 3e-5])         # rho = r0 + gr . p
        wind_rows, rho_rows = [], []
        for x in xs:
            for y in ys:
                for z in zs:
                    p = np.array([x, y, z])
                    v = V0 + A @ p
                    wind_rows.append([x, y, z, float(v[0]), float(v[1]), float(v[2])])
                    rho_rows.append([x, y, z, float(r0 + gr @ p)])
        sd = {"units": units, "scene": {"atmosphere": {"V_wind": wind_rows, "rho": rho_rows}}}
        ac = gen.simple_wing_aircraft(N=4, b=rng.uniform(3, 8))
        pos = [rng.uniform(-200, 300), rng.uniform(-200, 250), -rng.uniform(200, 2800)]
        st = {"velocity": rng.uniform(60, 120), "alpha": rng.uniform(-2, 4), "position": pos,
              "orientation": [rng.uniform(-60, 60), rng.uniform(-20, 20), rng.uniform(-170, 170)]}
        try:
            sc = gen.build_scene(MX, sd, [("a", ac, st, {})])
            api.solve(sc)
        except Exception as e:
            if type(e).__name__ == "SolverNotConvergedError":
                chk.count("field_nonconverged")        # an iteration that does not converge on a generated case says nothing about the atmosphere
                continue
            chk.violation("field:raises", dict(kind="field-table", scene_units=units, state=st, error=repr(e)))
            return
        chk.case(dict(kind="field-table", units=units, i=i), nontrivial=True)
        PC = np.array(sc._PC, dtype=float)
        expw = V0[None, :] + PC @ A.T
        expr = r0 + PC @ gr
        pts = [np.array(pos, dtype=float), np.array([xs[1], ys[1], zs[1]])]                      # an interior point and a node
        for p in pts:
            w1 = np.array(sc._get_wind(p), dtype=float)
            if not np.allclose(w1, V0 + A @ p, rtol=1e-9, atol=1e-9):
                chk.violation("field:wind-single-point", dict(kind="field-table", point=p, got=w1, expected=V0 + A @ p))
                return
            r1 = float(np.asarray(sc._get_density(p)).reshape(-1)[0])
            if not abs(r1 - (r0 + gr @ p)) <= 1e-9 * r0:
                chk.violation("field:density-single-point", dict(kind="field-table", point=p, got=r1, expected=float(r0 + gr @ p)))
                return
        if not np.allclose(np.array(sc._v_wind, dtype=float), expw, rtol=1e-9, atol=1e-9):
            chk.violation("field:wind-at-control-points", dict(kind="field-table", got=sc._v_wind, expected=expw, state=st))
            return
        if not np.allclose(np.array(sc._rho, dtype=float) * np.ones(len(PC)), expr, rtol=1e-9, atol=0):
            chk.violation("field:density-at-control-points", dict(kind="field-table", got=sc._rho, expected=expr, state=st))
            return



def field_model_cases(chk, MX, n):
    """NON-affine wind / density field tables against Model/FieldInterp.v: the Delaunay triangulation of the table's nodes (built by the harness with Qhull; unique because the
    nodes are jittered into general position) says which simplex contains the query point; the model evaluates the barycentric combination of the node values taken from the table
    as it was written (so the column wiring is part of the comparison); query points are the aircraft origin, a node, random points
    (array call) and every control point of a solved scene (the values the solver used)."""
    from harness.common import fhex, fv3
    rng = chk.rng
    cases, descr = [], []
    for i in range(n):
        units = rng.choice(["English", "SI"])
        xs = [-300.0, 0.0, 400.0]
        ys = [-250.0, 50.0, 300.0]
        zs = [-3000.0, -1500.0, 0.0]
        r0 = 0.0023 if units == "English" else 1.2
        wind_rows, rho_rows = [], []
        for x in xs:
            for y in ys:
                for z in zs:
                    q = [x + rng.uniform(-40, 40), y + rng.uniform(-40, 40), z + rng.uniform(-200, 200)]       # general position
                    wind_rows.append(q + [rng.uniform(-12, 12), rng.uniform(-12, 12), rng.uniform(-3, 3)])
                    rho_rows.append(q + [r0 * rng.uniform(0.85, 1.1)])
        for _ in range(rng.randint(0, 5)):                                                                      # scattered extra nodes
            q = [rng.uniform(-250, 350), rng.uniform(-200, 250), -rng.uniform(100, 2900)]
            wind_rows.append(q + [rng.uniform(-12, 12), rng.uniform(-12, 12), rng.uniform(-3, 3)])
            rho_rows.append(q + [r0 * rng.uniform(0.85, 1.1)])
        sd = {"units": units, "scene": {"atmosphere": {"V_wind": wind_rows, "rho": rho_rows}}}
        ac = gen.simple_wing_aircraft(N=4, b=rng.uniform(3, 8))
        pos = [rng.uniform(-150, 250), rng.uniform(-150, 200), -rng.uniform(500, 2500)]
        st = {"velocity": rng.uniform(60, 120), "alpha": rng.uniform(-2, 4), "position": pos,
              "orientation": [rng.uniform(-60, 60), rng.uniform(-20, 20), rng.uniform(-170, 170)]}
        try:
            sc = gen.build_scene(MX, sd, [("a", ac, st, {})])
            api.solve(sc)
        except Exception as e:
            if type(e).__name__ == "SolverNotConvergedError":
                chk.count("field_nonconverged")
                continue
            chk.violation("field:raises", dict(kind="field-model", scene_units=units, state=st, error=repr(e)))
            return cases, descr
        chk.case(dict(kind="field-model", units=units, i=i, nodes=len(rho_rows)), nontrivial=True)
        W = np.array(wind_rows, dtype=float)
        Rr = np.array(rho_rows, dtype=float)
        # the Delaunay triangulation of the nodes as written (unique for nodes in general position), built here and not read from the live object
        import scipy.spatial
        tri = scipy.spatial.Delaunay(Rr[:, :3])
        PC = np.array(sc._PC, dtype=float)
        rnd = np.array([[rng.uniform(-150, 250), rng.uniform(-150, 200), -rng.uniform(500, 2500)] for _ in range(6)])
        node = Rr[rng.randrange(len(Rr)), :3]
        queries = []      # (how, point, live density, live wind)
        queries.append(("single", np.array(pos, dtype=float), float(np.asarray(sc._get_density(np.array(pos, dtype=float))).reshape(-1)[0]),
                        np.array(sc._get_wind(np.array(pos, dtype=float)), dtype=float).reshape(3)))
        queries.append(("node", node, float(np.asarray(sc._get_density(node)).reshape(-1)[0]), np.array(sc._get_wind(node), dtype=float).reshape(3)))
        ra = np.asarray(sc._get_density(rnd), dtype=float).reshape(-1)
        wa = np.asarray(sc._get_wind(rnd), dtype=float).reshape(-1, 3)
        for k in range(len(rnd)):
            queries.append(("array", rnd[k], float(ra[k]), wa[k]))
        rho_cp = np.asarray(sc._rho, dtype=float) * np.ones(len(PC))
        vw_cp = np.asarray(sc._v_wind, dtype=float).reshape(len(PC), 3)
        for k in range(len(PC)):
            queries.append(("control-point", PC[k], float(rho_cp[k]), vw_cp[k]))
        rr = float(np.ptp(Rr[:, 3]))
        for how, pt, lr, lw in queries:
            s_ = int(tri.find_simplex(pt))
            if s_ < 0:
                chk.count("field_query_outside_hull")
                continue
            idx = [int(j) for j in tri.simplices[s_]]
            vs = [Rr[j, :3] for j in idx]
            cases.append("chk_field 0x1p-30 %s %s %s %s %s %s %s %s %s %s %s" % (
                fhex(1e-6 * rr), fv3(vs[0]), fv3(vs[1]), fv3(vs[2]), fv3(vs[3]),
                fhex(Rr[idx[0], 3]), fhex(Rr[idx[1], 3]), fhex(Rr[idx[2], 3]), fhex(Rr[idx[3], 3]), fv3(pt), fhex(lr)))
            descr.append(dict(kind="field-model", what="density", how=how, units=units, point=pt.tolist(), simplex_nodes=[Rr[j].tolist() for j in idx], live=lr,
                              scene=sd, state=st))
            cases.append("chk_wind_field 0x1p-30 %s %s %s %s %s %s %s %s %s %s %s" % (
                fhex(2.4e-5), fv3(vs[0]), fv3(vs[1]), fv3(vs[2]), fv3(vs[3]),
                fv3(W[idx[0], 3:]), fv3(W[idx[1], 3:]), fv3(W[idx[2], 3:]), fv3(W[idx[3], 3:]), fv3(pt), fv3(lw)))
            descr.append(dict(kind="field-model", what="wind", how=how, units=units, point=pt.tolist(), simplex_nodes=[W[j].tolist() for j in idx], live=lw.tolist(),
                              scene=sd, state=st))
            chk.count("field_model_" + how)
    return cases, descr


def scene_sampling(chk, MX, n):
    """profile tables / constants / 'standard' through the Scene getters, and per-control-point sampling."""
    rng = chk.rng
    from machupX.standard_atmosphere import StandardAtmosphere
    for i in range(n):
        units = rng.choice(["English", "SI"])
        kind = rng.choice(["standard", "profile", "profile_units", "const"])
        chk.count("scene_rho=" + kind)
        sd = {"units": units, "scene": {"atmosphere": {}}}
        zmax = 6000.0
        tab = None
        if kind == "standard":
            sd["scene"]["atmosphere"]["rho"] = "standard"
        elif kind.startswith("profile"):
            hs = sorted(rng.uniform(0, zmax) for _ in range(rng.randint(2, 5)))
            hs[0] = 0.0
            base = 0.0023769 if units == "English" else 1.225
            vals = [base * math.exp(-h / 9000.0) * rng.uniform(0.9, 1.1) for h in hs]
            tab = [[h, v] for h, v in zip(hs, vals)]
            if kind == "profile_units":
                # give the table in the *other* system with a unit row
                if units == "English":
                    sd["scene"]["atmosphere"]["rho"] = [[h * 0.3048, v * 515.378819] for h, v in tab] + [["m", "kg/m^3"]]
                else:
                    sd["scene"]["atmosphere"]["rho"] = [[h / 0.3048, v / 515.378819] for h, v in tab] + [["ft", "slug/ft^3"]]
            else:
                sd["scene"]["atmosphere"]["rho"] = copy.deepcopy(tab)
        else:
            c = rng.uniform(0.001, 0.003) if units == "English" else rng.uniform(0.5, 1.3)
            sd["scene"]["atmosphere"]["rho"] = c
        wind_tab = None
        if rng.random() < 0.5:
            hs = sorted(rng.uniform(0, zmax) for _ in range(3))
            wind_tab = [[h, rng.uniform(-10, 10), rng.uniform(-10, 10), rng.uniform(-2, 2)] for h in hs]
            sd["scene"]["atmosphere"]["V_wind"] = copy.deepcopy(wind_tab)
        std_av = i % 3 == 0
        if std_av:
            sd["scene"]["atmosphere"]["speed_of_sound"] = "standard"
            sd["scene"]["atmosphere"]["viscosity"] = "standard"
            chk.count("scene_a_nu=standard")
        ac = gen.simple_wing_aircraft(N=4, b=rng.uniform(3, 8))
        if i % 2 == 1:
            ac["CG"] = [round(rng.uniform(-2.0, 0.5), 2), 0.0, round(rng.uniform(-0.5, 0.8), 2)]      # the atmosphere is sampled at the control points, wherever the CG is
        alt = rng.uniform(100.0, zmax * 0.9)
        st = {"velocity": rng.uniform(50, 120), "alpha": rng.uniform(-3, 5), "position": [rng.uniform(-100, 100), rng.uniform(-100, 100), -alt],
              "orientation": [rng.uniform(-80, 80), rng.uniform(-30, 30), rng.uniform(-170, 170)]}
        try:
            sc = gen.build_scene(MX, sd, [("a", ac, st, {})])
            FM = api.solve(sc)
        except Exception as e:
            if type(e).__name__ == "SolverNotConvergedError":
                chk.count("sampling_nonconverged")
                continue
            chk.violation("sampling:raises", dict(kind="scene-sampling", scene=sd, state=st, error=repr(e)))
            return
        # where the control points are, from the aircraft's own body-frame array, its position and attitude (independent rotation)
        a_ = sc._airplanes["a"]
        PC = np.array([np.array(a_.p_bar, dtype=float) + np.array(api.quat_inv_rot(a_.q, pc_)) for pc_ in np.array(a_.PC, dtype=float)])
        hcp = -PC[:, 2]
        if not np.allclose(PC, np.array(sc._PC), rtol=0, atol=1e-9 * max(1.0, float(np.max(np.abs(PC))))):
            chk.violation("sampling:control-point-positions", dict(kind="scene-sampling", scene=sd, state=st, CG=ac["CG"], scene_PC=np.array(sc._PC), expected=PC))
            return
        if kind == "standard":
            sa = StandardAtmosphere(units)
            exp_rho = np.array([sa.rho(float(h)) for h in hcp])
            exp0 = sa.rho(float(alt))
        elif tab is not None:
            xs, ys = [t[0] for t in tab], [t[1] for t in tab]
            exp_rho = np.array([_interp_py(h, xs, ys) for h in hcp])
            exp0 = _interp_py(alt, xs, ys)
        else:
            exp_rho = np.full(len(hcp), c)
            exp0 = c
        rtol = 1e-6 if kind == "profile_units" else 1e-10
        got = np.array(sc._rho, dtype=float) * np.ones(len(hcp))
        chk.case(dict(kind="scene-sampling", rho=kind, units=units, wind=wind_tab is not None, alt=round(alt, 1),
                      spread=float(hcp.max() - hcp.min())), nontrivial=(hcp.max() - hcp.min() > 0.1))
        if not np.allclose(got, exp_rho, rtol=rtol, atol=0):
            chk.violation("sampling:rho-at-control-points", dict(kind="scene-sampling", scene=sd, state=st, got=got, expected=exp_rho))
            return
        if std_av:
            sa_ = StandardAtmosphere(units)
            for arr, fn, what in ((sc._a, sa_.a, "speed-of-sound"), (sc._nu, sa_.nu, "viscosity")):
                exp_ = np.array([fn(float(h)) for h in hcp])
                got_ = np.array(arr, dtype=float) * np.ones(len(hcp))
                if not np.allclose(got_, exp_, rtol=1e-10, atol=0):
                    chk.violation("sampling:%s-at-control-points" % what, dict(kind="scene-sampling", scene=sd, state=st, got=got_, expected=exp_, altitudes=hcp))
                    return
        if wind_tab is not None:
            xs = [t[0] for t in wind_tab]
            expw = np.array([[_interp_py(h, xs, [t[k] for t in wind_tab]) for k in (1, 2, 3)] for h in hcp])
            if not np.allclose(np.array(sc._v_wind), expw, rtol=1e-10, atol=1e-12):
                chk.violation("sampling:wind-at-control-points", dict(kind="scene-sampling", scene=sd, state=st, got=sc._v_wind, expected=expw))
                return
            w0 = np.array([_interp_py(alt, xs, [t[k] for t in wind_tab]) for k in (1, 2, 3)])
        else:
            w0 = np.zeros(3)
        # coefficients use density and wind at the aircraft origin
        a = sc._airplanes["a"]
        Vrel = np.linalg.norm(np.array(a.v) - w0)
        qS = 0.5 * exp0 * Vrel ** 2 * a.S_w
        for ck, fk in (("CL", "FL"), ("CD", "FD"), ("Cx", "Fx"), ("Cz", "Fz")):
            cval, fval = FM["a"]["total"][ck], FM["a"]["total"][fk]
            if not (abs(cval * qS - fval) <= 1e-6 * abs(fval) + 1e-9):
                chk.violation("sampling:coefficient-reference", dict(kind="scene-sampling", scene=sd, state=st, key=ck, coefficient=cval,
                                                                     force=fval, q_origin_S=qS))
                return
        # the section induced-drag coefficients of distributions() are referred to the same (origin) density and airspeed: per segment they add
        # up, weighted with the section areas, to the segment's inviscid CD
        try:
            dist_ = sc.distributions()["a"]
            seg_FM = sc.solve_forces(report_by_segment=True, non_dimensional=True, dimensional=False, verbose=False)["a"]["inviscid"]["CD"]
        except Exception as e:
            chk.count("cdi_error=" + type(e).__name__)
            dist_ = None
        if dist_ is not None:
            for sn, dd in dist_.items():
                lhs = float(np.sum(np.array(dd["CD_i"], dtype=float) * np.array(dd["area"], dtype=float))) / a.S_w
                rhs = float(seg_FM[sn])
                if not abs(lhs - rhs) <= 2e-6 * max(abs(rhs), abs(FM["a"]["total"]["CD"])) + 1e-12:
                    chk.violation("sampling:CD_i-reference", dict(kind="scene-sampling", scene=sd, state=st, segment=sn, sum_CDi_dS_over_S=lhs, inviscid_CD_of_segment=rhs))
                    return
        # the same aircraft moved (not turned) to another altitude samples the atmosphere of the new place
        alt2 = rng.uniform(100.0, zmax * 0.9)
        st2 = dict(st, position=[st["position"][0] + 35.0, st["position"][1] - 20.0, -alt2])
        try:
            sc.set_aircraft_state(state=copy.deepcopy(st2), aircraft="a")
            api.solve(sc)
        except Exception as e:
            chk.count("moved_error=" + type(e).__name__)
            continue
        h2 = -np.array(sc._PC)[:, 2]
        if kind == "standard":
            exp2 = np.array([sa.rho(float(h)) for h in h2])
        elif tab is not None:
            exp2 = np.array([_interp_py(h, [t[0] for t in tab], [t[1] for t in tab]) for h in h2])
        else:
            exp2 = np.full(len(h2), c)
        got2 = np.array(sc._rho, dtype=float) * np.ones(len(h2))
        if not np.allclose(got2, exp2, rtol=rtol, atol=0):
            chk.violation("sampling:rho-after-move", dict(kind="scene-sampling", scene=sd, state=st, moved_to=st2, got=got2, expected=exp2))
            return


def _interp_py(x, xs, ys):
    """independent piecewise-linear interpolation with clamping"""
    if x <= xs[0]:
        return ys[0]
    if x >= xs[-1]:
        return ys[-1]
    for j in range(len(xs) - 1):
        if xs[j] <= x <= xs[j + 1]:
            if xs[j + 1] == xs[j]:
                continue
            t = (x - xs[j]) / (xs[j + 1] - xs[j])
            return ys[j] * (1 - t) + ys[j + 1] * t
    return ys[-1]


def run(chk):
    MX = common.setup_env()
    live.generate()
    chk.proofs(extra_trusted=[
        "Live/LiveTables.v: constants read from the running StandardAtmosphere object (harness/live.py)",
        "correspondence: Model/Atmos.v on binary64 vs StandardAtmosphere methods to 4 ulp; exp and ** supplied as oracle tables of NumPy's own results",
        "modelled, not verified: libm exp/pow, np.interp (re-implemented in Base/Interp.v and compared bit-exactly), scipy LinearNDInterpolator (field tables: the evaluation inside a simplex is Model/FieldInterp.v, compared on non-affine tables at the aircraft origin, nodes, random points and every control point of solved scenes; the Delaunay triangulation and the point location are Qhull's and enter as data - C17_field_tables holds for whatever non-degenerate simplex they provide)",
        "search oracle: scipy solve_ivp integration of the hydrostatic ODE (validation only)"])
    cases, descr = atmosphere_cases(chk, chk.q(400, 4000))
    c2, d2 = interp_cases(chk, chk.q(300, 3000))
    cases += c2
    descr += d2
    c3, d3 = field_model_cases(chk, MX, chk.q(5, 40))
    cases += c3
    descr += d3
    failing, nfiles, errors = common.run_cases("C17", IMPORTS, [], cases)
    chk.cov["traces_validated_against_impl"] = len(cases)
    chk.cov["correspondence_cases"] = len(cases)
    for d in descr[:2] + d2[:1]:
        chk.cov["samples"].append(dict(correspondence=d))
    nv0 = len(chk.violations)
    ode_search(chk, chk.q(40, 400))
    scene_sampling(chk, MX, chk.q(16, 120))
    field_tables(chk, MX, chk.q(4, 30))
    array_consistency(chk, chk.q(10, 80))
    if errors:
        chk.fail_obligation("correspondence:Model/Atmos.v(case files do not compile)", "\n".join(errors)[-3000:])
    elif failing and len(chk.violations) == nv0 and not chk.known_hits:
        d = descr[failing[0]]
        chk.fail_obligation("correspondence:Model/Atmos.v", json.dumps(dict(first_disagreement=d, n_disagreements=len(failing)), default=str))
    elif failing:
        chk.notes.append("correspondence disagreements: %d (first: %s)" % (len(failing), json.dumps(descr[failing[0]], default=str)))
    return chk.finish(
        rule="correspondence: geometric altitudes -1..86 km (all layer bases, random, upper layers oversampled) x 6 quantities x 2 unit "
             "systems x scalar/array, out-of-range heights, random interpolation tables (incl. repeated nodes, exact node hits); "
             "search: hydrostatic ODE integrated numerically vs implementation; scenes with standard/profile/constant density and wind "
             "profiles at banked attitudes; non-trivial = control points spread over > 0.1 length units in altitude")


def replay(chk, path):
    r = json.load(open(path))
    common.setup_env()
    from machupX.standard_atmosphere import StandardAtmosphere
    if r.get("kind") == "atmos-value":
        s = StandardAtmosphere(r["units"])
        got = float(getattr(s, r["method"])(r["h_input"]))
        print("got", got, "expected", r["expected_from_hydrostatic_ode"])
        if abs(got - r["expected_from_hydrostatic_ode"]) > 2e-6 * abs(got):
            print("VIOLATION property=C17 replay=%s" % path)
            return 1
        return 0
    print(json.dumps(r, indent=1)[:3000])
    return 0
