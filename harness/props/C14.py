"""C14 — the converged solution is independent of the solver path."""
import math, copy, json
import numpy as np
from harness import common, gen, api, adapter

LEVEL = "proof"


def compressible_airfoil(a0):
    """symmetric section whose lift depends on Mach (Prandtl-Glauert) and Reynolds number"""
    def CL(**kw):
        al, Re, M = kw.get("alpha", 0.0), kw.get("Rey", 1e6), kw.get("Mach", 0.0)
        return a0 * al * (1.0 + 0.05 * np.log10(np.asarray(Re, dtype=float) / 1e6)) / np.sqrt(1.0 - np.asarray(M, dtype=float) ** 2)

    def CD(**kw):
        return 0.006 + 0.01 * CL(**kw) ** 2

    def Cm(**kw):
        return 0.0 * CL(**kw)
    return {"type": "functional", "CL": CL, "CD": CD, "Cm": Cm, "geometry": {"NACA": "0010"}}


def curved_sections(ac):
    """the aircraft with swept wings and cambered sections whose lift curve is not a straight line"""
    ac = copy.deepcopy(ac)

    def airfoil(a0, aL0):
        def CL(**kw):
            al = np.asarray(kw.get("alpha", 0.0), dtype=float)
            df, cf = kw.get("trailing_flap_deflection", 0.0), kw.get("trailing_flap_fraction", 0.0)
            x = al - aL0 + 0.6 * np.asarray(cf) * np.asarray(df)
            return a0 * x - 4.0 * x ** 2

        def CD(**kw):
            return 0.006 + 0.01 * CL(**kw) ** 2

        def Cm(**kw):
            return -0.03 + 0.0 * CL(**kw)
        return {"type": "functional", "CL": CL, "CD": CD, "Cm": Cm, "geometry": {"NACA": "2410"}}
    ac["airfoils"] = {k_: airfoil(6.0 + 0.1 * j_, -0.03 - 0.01 * j_) for j_, k_ in enumerate(ac["airfoils"])}
    for w in ac["wings"].values():
        if "semispan" in w and not isinstance(w.get("sweep"), list):
            w["sweep"] = 25.0
        w.pop("ll_offset", None)
    return ac


def check_guess_spelling(chk, MX):
    """initial_guess may be 'linear' or 'previous': any other value is rejected, or at least never changes what is returned"""
    rng = chk.rng
    for k in range(chk.q(2, 8)):
        ac = gen.simple_wing_aircraft(N=4, reid=rng.random() < 0.5, sweep=rng.choice([None, 15.0]))
        sd = {"solver": {"type": "nonlinear"}, "scene": {"atmosphere": {"rho": 0.0023769}}}
        st1 = {"velocity": 90.0, "alpha": 5.0, "beta": 1.0}
        st2 = {"velocity": 90.0, "alpha": -4.0 + k, "beta": -2.0}
        guess = ("Previous", "zero", "PREVIOUS", "last", "")[k % 5]
        chk.case(dict(kind="guess-spelling", guess=guess, k=k), nontrivial=True)
        chk.count("kind=guess-spelling")
        sc = gen.build_scene(MX, sd, [("a", ac, st1, {})])
        sc.solve_forces()
        # the analyses pass the guess on to their solves: derivatives taken from the previous circulation are the derivatives
        try:
            d_prev = copy.deepcopy((sc.stability_derivatives if k % 2 == 0 else sc.control_derivatives)(initial_guess="previous"))
            d_lin = copy.deepcopy((gen.build_scene(MX, sd, [("a", ac, st1, {})]).stability_derivatives if k % 2 == 0 else
                                   gen.build_scene(MX, sd, [("a", ac, st1, {})]).control_derivatives)())
            bad_d = api.compare(d_prev, d_lin, rtol=2e-5, atol=2e-7)
            if bad_d:
                chk.violation("path:derivatives-from-previous", dict(kind="path", what="derivatives with initial_guess='previous' differ from those with the default guess",
                                                                     scene=sd, aircraft=ac, state=st1, differences=bad_d[:6]))
        except Exception as e:
            if type(e).__name__ != "SolverNotConvergedError":
                chk.violation("path:derivatives-from-previous:raises", dict(kind="path", scene=sd, aircraft=ac, state=st1, error=repr(e)))
        sc.set_aircraft_state(state=st2, aircraft="a")
        try:
            got = copy.deepcopy(sc.solve_forces(initial_guess=guess, **api.ALL_FRAMES))
        except Exception:
            continue
        fresh = api.solve(gen.build_scene(MX, sd, [("a", ac, st2, {})]))
        bad = api.compare(got, fresh, rtol=2e-7, atol=2e-8)
        if bad:
            chk.violation("path:unrecognised-initial-guess", dict(kind="path", what="initial_guess=%r is accepted and changes the loads returned" % guess, scene=sd,
                                                                  aircraft=ac, first_state=st1, state=st2, differences=bad[:6]))


def run(chk):
    MX = common.setup_env()
    chk.proofs(extra_trusted=["np.linalg.solve is assumed regular at the iterate (invertible Jacobian); uniqueness of the nonlinear solution and the quadratic "
                              "approach of the linear solution are exercised, not proved",
                              "the linear system itself is tied to the code in C01 (chk_linear)"])
    rng = chk.rng
    n = chk.q(20, 200)
    for it in range(n):
        sd = gen.gen_scene(rng, chk.hist, rho="const", wind=rng.random() < 0.3)
        multi = rng.random() < 0.2
        # (enumerated) two different aircraft far apart, under-relaxed; below only the first one is moved between the solves, so the second
        # starts the last solve already converged: the iteration ends when the whole scene has converged, not one aircraft of it
        far_pair = (it == 1)
        if far_pair:
            multi = True
            sd["solver"]["relaxation"] = 0.5
            chk.count("forced=far-pair-one-moved")
        acs = []
        for k in range(2 if multi else 1):
            ac = gen.gen_aircraft(rng, chk.hist, max_wings=2, sides=("both", "both", "left", "right"))
            st = gen.gen_state(rng, chk.hist, ang=6.0)
            if multi:
                st["position"] = [0.0, k * (3.0e6 if far_pair else 25.0), 0.0]
            acs.append(("ac%d" % k, ac, st, gen.gen_controls(rng, ac)))
        try:
            ref_sc = gen.build_scene(MX, sd, acs)
            ref = api.solve(ref_sc)
        except Exception as e:
            chk.count("base_error=" + type(e).__name__)
            continue
        kind = ("relaxation", "previous", "scipy", "linear")[it % 4]
        chk.case(dict(kind=kind, multi=multi, it=it), nontrivial=True)
        chk.count("kind=" + kind)
        try:
            if kind == "relaxation":
                sd2 = copy.deepcopy(sd)
                sd2["solver"]["relaxation"] = 0.05 if (it // 4) % 2 == 1 else rng.choice([0.3, 0.5, 0.7, 0.85])
                # (with relaxation 0.05 the default cap of 100 iterations is not enough: the solve must raise, never return early)
                sd2["solver"]["max_iterations"] = 400 if sd2["solver"]["relaxation"] > 0.1 else 100
                other = api.solve(gen.build_scene(MX, sd2, acs))
                what = "relaxation=%s" % sd2["solver"]["relaxation"]
            elif kind == "previous":
                sc = gen.build_scene(MX, sd, acs)
                # arbitrary earlier solves: other states and controls
                for j in range(rng.randint(1, 3)):
                    nm = rng.choice([a[0] for a in acs]) if not far_pair else "ac0"
                    sc.set_aircraft_state(state=dict(gen.gen_state(rng, None, ang=8.0), position=[0.0, 0.0, 0.0]) if far_pair else gen.gen_state(rng, None, ang=8.0), aircraft=nm)
                    sc.set_aircraft_control_state(control_state={"aileron": rng.uniform(-8, 8)}, aircraft=nm)
                    sc.solve_forces(initial_guess=rng.choice(["linear", "previous"]))
                for nm, ac, st, cs in acs:
                    if far_pair and nm != "ac0":
                        continue          # (never moved)
                    sc.set_aircraft_state(state=copy.deepcopy(st), aircraft=nm)
                    sc.set_aircraft_control_state(control_state=copy.deepcopy(cs), aircraft=nm)
                other = copy.deepcopy(sc.solve_forces(initial_guess="previous", **api.ALL_FRAMES))
                what = "initial_guess=previous"
            elif kind == "scipy":
                sd2 = copy.deepcopy(sd)
                sd2["solver"]["type"] = "scipy_fsolve"
                if (it // 4) % 2 == 0:
                    # cambered sections whose lift slope varies with the angle of attack, on swept wings: every section property the residual
                    # uses has to be evaluated at the current iterate on this path as well
                    acs = [(nm, curved_sections(ac_), st_, cs_) for nm, ac_, st_, cs_ in acs]
                    ref = api.solve(gen.build_scene(MX, sd, acs))
                    chk.count("scipy=curved-sections")
                other = api.solve(gen.build_scene(MX, sd2, acs))
                what = "scipy_fsolve"
            else:
                # linear solver: exact solution of its own system; and quadratic approach to the nonlinear solution for small angles.
                # mode "fixed-geometry" (default solver options): only the aerodynamic angles shrink, sweep/dihedral stay, twist/aL0/deflections are 0;
                # mode "fixed-geometry-cambered": as the first, but with the sections' zero-lift angles shrinking with the other angles (the sweep
                # correction of the section lift enters the linear system through them);
                # mode "all-angles" (generated solver options): sweep, dihedral, twist, zero-lift angles and the state angles all shrink together.
                # mode "fixed-geometry-compressible": as the first, on wings swept by 30 degrees whose sections depend on Mach and Reynolds number, at M = 0.5.
                mode = ("fixed-geometry", "all-angles", "fixed-geometry-cambered", "fixed-geometry-compressible")[(it // 4) % 4]
                chk.count("linear-mode=" + mode)
                # the linear solver on a scene with a history: the same answer as on a fresh scene in the same state
                sdh = copy.deepcopy(sd)
                sdh["solver"] = {"type": "linear"}
                hist_sc = gen.build_scene(MX, sdh, acs)
                hist_sc.solve_forces()
                acs_h = []
                for nm, ac, st, cs in acs:
                    st_h = {"velocity": 90.0, "alpha": rng.uniform(-3, 7), "beta": rng.uniform(-5, 5), "angular_rates": [rng.uniform(-0.2, 0.2), 0.05, -0.03]}
                    for key in ("position", "orientation"):
                        if key in st:
                            st_h[key] = copy.deepcopy(st[key])
                    hist_sc.set_aircraft_state(state=copy.deepcopy(st_h), aircraft=nm)
                    acs_h.append((nm, ac, st_h, cs))
                fresh_h = api.solve(gen.build_scene(MX, sdh, acs_h))
                # (the documentation says the initial guess is ignored by the linear solver: asked for first, straight after the state change)
                bad_h = api.compare(copy.deepcopy(hist_sc.solve_forces(initial_guess="previous", **api.ALL_FRAMES)), fresh_h, rtol=2e-7, atol=2e-8)
                if not bad_h:
                    bad_h = api.compare(api.solve(hist_sc), fresh_h, rtol=2e-7, atol=2e-8)
                if bad_h:
                    chk.violation("linear:history", dict(kind="solver-path", what="the linear solver on a scene that was solved in another state before differs from a fresh scene",
                                                         scene=sdh, aircraft=acs_h, first_state=[a[2] for a in acs], differences=bad_h[:8]))
                SC = (1.0, 0.5, 0.25, 0.125, 0.0625)
                errs = []
                if mode == "fixed-geometry-cambered":
                    # a swept wing with cambered sections, whatever was drawn: the sweep correction of the freestream lift enters the linear
                    # system through the zero-lift angle
                    acs = [(acs[0][0], gen.simple_wing_aircraft(N=4, reid=bool(it % 8 < 4), sweep=25.0), acs[0][2], {})] + list(acs[1:])

                def scaled(v, f):
                    if isinstance(v, list):
                        return [[r[0], r[1] * f] for r in v]
                    return v * f
                for scale in SC:
                    acs_s = []
                    for nm, ac, st, cs in acs:
                        st2 = {"velocity": 100.0, "alpha": 2.0 * scale, "beta": 1.0 * scale}
                        if "position" in st:
                            st2["position"] = st["position"]
                        ac2 = copy.deepcopy(ac)
                        for w in ac2["wings"].values():
                            if isinstance(w.get("airfoil"), list):
                                w["airfoil"] = w["airfoil"][0][1]
                            if mode.startswith("fixed-geometry"):
                                w.pop("twist", None)
                                if mode == "fixed-geometry-cambered" and "semispan" in w and not isinstance(w.get("sweep"), list):
                                    w["sweep"] = 20.0          # the sweep correction of the section lift enters through the zero-lift angle
                            else:
                                for key in ("twist", "sweep", "dihedral"):
                                    if key in w:
                                        w[key] = scaled(w[key], scale)
                        for af in ac2["airfoils"].values():
                            af["aL0"] = 0.0 if mode in ("fixed-geometry", "fixed-geometry-compressible") else af["aL0"] * scale      # (cambered: the zero-lift angle is one of the angles)
                        if mode == "fixed-geometry-compressible":
                            ac2["airfoils"] = {k_: compressible_airfoil(6.0 + 0.1 * j_) for j_, k_ in enumerate(ac2["airfoils"])}
                            for w in ac2["wings"].values():
                                w.pop("quarter_chord_locs", None)
                                w.setdefault("semispan", 3.0)
                                w["sweep"] = 30.0
                                w.pop("ll_offset", None)
                        acs_s.append((nm, ac2, st2, {}))
                    sdl = copy.deepcopy(sd)
                    sdn = copy.deepcopy(sd)
                    if mode.startswith("fixed-geometry"):
                        sdl["solver"] = {"type": "linear"}
                        sdn["solver"] = {"type": "nonlinear"}
                        if mode == "fixed-geometry-compressible":
                            for s_ in (sdl, sdn):
                                s_["scene"]["atmosphere"]["speed_of_sound"] = 200.0          # V = 100: M = 0.5
                    else:
                        sdl["solver"]["type"] = "linear"
                        sdn["solver"]["type"] = "nonlinear"
                    scl = gen.build_scene(MX, sdl, acs_s)
                    with adapter.SolveRecorder() as rec:
                        fl = api.solve(scl)
                    A, b, x = rec.calls[-1]
                    if not np.allclose(A @ np.array(scl._gamma), b, rtol=1e-9, atol=1e-10 * np.max(np.abs(b))):
                        chk.violation("linear:not-solution", dict(kind="solver-path", what="linear solver does not return the solution of its system",
                                                                  scene=sdl, aircraft=acs_s))
                    fn = api.solve(gen.build_scene(MX, sdn, acs_s))
                    nm0 = acs_s[0][0]
                    errs.append(abs(fl[nm0]["total"]["CL"] - fn[nm0]["total"]["CL"]) / max(abs(fn[nm0]["total"]["CL"]), 1e-12))
                chk.cov.setdefault("linear_vs_nonlinear_rel_error_at_scales_1_to_1/16", []).append([mode] + [float("%.3g" % e) for e in errs])
                # absolute gap O(angle^2) <=> relative gap / angle bounded: g = rel/scale must not keep growing as the scale shrinks
                # (a first-order mismatch doubles g at every halving: g(1/16) = 4 g(1/4)); 2e-8 is the convergence-tolerance floor
                g = [e / s_ for e, s_ in zip(errs, SC)]
                if not (g[4] <= 3.0 * max(g[0], g[1], g[2]) + 2e-8 / SC[4]):
                    chk.violation("linear:no-approach", dict(kind="solver-path", what="linear solution does not approach the nonlinear one quadratically as angles shrink",
                                                             mode=mode, scales=SC, rel_errors=errs, scene=sd, aircraft=acs))
                continue
        except Exception as e:
            if type(e).__name__ == "SolverNotConvergedError":
                chk.count("nonconverged=" + kind)
                continue
            chk.violation("raises:%s" % kind, dict(kind="solver-path", what=kind, scene=sd, aircraft=acs, error=repr(e)))
            continue
        tol = 2e-5 if kind == "scipy" else 2e-6
        bad = api.compare(ref, other, rtol=tol, atol=tol * 0.1)
        if bad:
            chk.violation("path:%s" % kind, dict(kind="solver-path", what=what, scene=sd, aircraft=acs, differences=bad[:8]))
    check_guess_spelling(chk, MX)
    return chk.finish(rule="generated scenes solved with the default path vs relaxation in {0.3..0.85}, vs initial_guess='previous' after 1-3 unrelated "
                           "earlier solves, vs scipy_fsolve; linear solver: A gamma = b on the recorded system and linear/nonlinear gap bounded by C*angle^2 over "
                           "angle scales 1 .. 1/16 (geometry fixed with default options; all angles shrinking with generated options)")


def replay(chk, path):
    print(json.dumps(json.load(open(path)), indent=1, default=str)[:3000])
    return 0
