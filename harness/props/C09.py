"""C09 — reported derivatives are the documented central differences of the loads."""
import math, copy, json
import numpy as np
from harness import common, gen, api
from harness.common import fhex, flist

LEVEL = "proof"
IMPORTS = ["From MuxV Require Import Base.Num Base.Vec3 Base.FInst Model.Helpers Model.AeroState Model.Analyses Model.AnalysesF Model.Controls Model.ControlsF."]
BODYK = ["Cx", "Cy", "Cz", "Cl", "Cm", "Cn"]
STABK = [k + "_s" for k in BODYK]
WINDK = ["CL", "CD", "CS", "Cl_w", "Cm_w", "Cn_w"]


def frame_keys(fr):
    ks = []
    if fr["body_frame"]:
        ks += BODYK
    if fr["stab_frame"]:
        ks += STABK
    if fr["wind_frame"]:
        ks += WINDK
    return ks


class Recorder:
    """records every solve_forces call made on a scene (results are deep-copied)"""

    def __init__(self, sc):
        self.sc, self.calls = sc, []
        self.orig = sc.solve_forces

        def wrapped(**kw):
            r = self.orig(**kw)
            self.calls.append(dict(kw=dict(kw), result=copy.deepcopy(r), states={n: api.aircraft_state(sc, n) for n in sc._airplanes}))
            return r
        sc.solve_forces = wrapped

    def stop(self):
        del self.sc.solve_forces


def fresh_totals(MX, sd, acs, frames, dimensional=False):
    sc = gen.build_scene(MX, sd, acs)
    return sc.solve_forces(**frames, dimensional=dimensional, non_dimensional=not dimensional)


def with_state(acs, name, st=None, cs=None):
    out = []
    for n, ac, s, c in acs:
        if n == name:
            out.append((n, ac, st if st is not None else s, cs if cs is not None else c))
        else:
            out.append((n, ac, s, c))
    return out


def gen_case(chk, MX, force_multi=None, force_rho=None, force_rate_frame=None, all_frames=False):
    rng = chk.rng
    multi = rng.random() < 0.25 if force_multi is None else force_multi
    sd = gen.gen_scene(rng, chk.hist, rho=force_rho or rng.choice(["const", "standard"]), wind=rng.random() < 0.5, solver={"type": "nonlinear"})
    acs = []
    for k in range(2 if multi else 1):
        ac = gen.simple_wing_aircraft(N=3, b=rng.uniform(3, 5), sweep=rng.choice([None, 10.0]), reid=rng.random() < 0.5,
                                      extra={"CG": [round(rng.uniform(-0.3, 0.3), 2), 0.0, round(rng.uniform(-0.1, 0.1), 2)]})
        V, a, b = round(rng.uniform(50, 120), 2), round(rng.uniform(-4, 8), 3), round(rng.uniform(-6, 6), 3)
        st = {"velocity": V, "alpha": a, "beta": b,
              "angular_rates": [round(rng.uniform(-0.1, 0.1), 4), round(rng.uniform(-0.05, 0.05), 4), round(rng.uniform(-0.05, 0.05), 4)],
              "angular_rate_frame": force_rate_frame or rng.choice(["body", "stab", "wind"]),
              "position": [rng.uniform(-100, 100), k * 30.0 + rng.uniform(-5, 5), -rng.uniform(100, 3000)],
              "orientation": [round(rng.uniform(-40, 40), 2), round(rng.uniform(-20, 20), 2), round(rng.uniform(-170, 170), 2)]}
        cs = {"aileron": round(rng.uniform(-4, 4), 2), "elevator": round(rng.uniform(-4, 4), 2), "rudder": round(rng.uniform(-4, 4), 2)}
        acs.append(("ac%d" % k, ac, st, cs))
    frames = dict(body_frame=rng.random() < 0.7, stab_frame=rng.random() < 0.5, wind_frame=rng.random() < 0.7)
    if all_frames:
        frames = dict(body_frame=True, stab_frame=True, wind_frame=True)
    if not any(frames.values()):
        frames["wind_frame"] = True
    return sd, acs, frames


def check_stability(chk, MX, sd, acs, frames, name, cases, descr):
    rng = chk.rng
    dth = rng.choice([0.5, 0.5, 0.25, 1.0])
    sc = gen.build_scene(MX, sd, acs)
    rec = Recorder(sc)
    out = sc.stability_derivatives(aircraft=name, dtheta=dth, **frames)[name]
    rec.stop()
    st = [a for a in acs if a[0] == name][0][2]
    keys = frame_keys(frames)
    tot = {}
    for tag, da, db in (("a+", dth, 0), ("a-", -dth, 0), ("b+", 0, dth), ("b-", 0, -dth)):
        s2 = dict(st, alpha=st["alpha"] + da, beta=st["beta"] + db)
        # "everything else held fixed": body rates stay what they were
        live_w = rec.calls[0]["states"][name]["w"]
        s2["angular_rates"] = live_w
        s2["angular_rate_frame"] = "body"
        tot[tag] = fresh_totals(MX, sd, with_state(acs, name, st=s2), frames)[name]["total"]
    diff = 2 * math.radians(dth)
    for k in keys:
        for var, p, m in (("a", "a+", "a-"), ("b", "b+", "b-")):
            exp = (tot[p][k] - tot[m][k]) / diff
            got = out["%s,%s" % (k, var)]
            if not abs(got - exp) <= 2e-5 * (abs(exp) + 1e-3):
                return "stability:%s,%s" % (k, var), dict(key="%s,%s" % (k, var), reported=got, independent=exp, dtheta=dth)
    exp_keys = set("%s,%s" % (k, v) for k in keys for v in "ab") | ({"%_static_margin"} if frames["wind_frame"] else set())
    if set(out.keys()) != exp_keys:
        return "stability:keys", dict(expected=sorted(exp_keys), got=sorted(out.keys()))
    if frames["wind_frame"]:
        sm = -out["Cm_w,a"] / out["CL,a"] * 100.0
        if not abs(out["%_static_margin"] - sm) <= 1e-9 * abs(sm) + 1e-12:
            return "stability:static_margin", dict(reported=out["%_static_margin"], expected=sm)
    # model correspondence: the table is the central difference of the four recorded solves
    k_ = 1 / (2 * np.radians(dth))
    f = lambda i: [rec.calls[i]["result"][name]["total"][k] for k in keys]
    cases.append("chk_cdiff %s %s %s %s" % (fhex(k_), flist(f(0)), flist(f(1)), flist([out[k + ",a"] for k in keys])))
    descr.append(dict(what="stability,a"))
    cases.append("chk_cdiff %s %s %s %s" % (fhex(k_), flist(f(2)), flist(f(3)), flist([out[k + ",b"] for k in keys])))
    descr.append(dict(what="stability,b"))
    return None, None


def check_damping(chk, MX, sd, acs, frames, name, cases, descr):
    rng = chk.rng
    dw = rng.choice([0.005, 0.005, 0.01])
    sc = gen.build_scene(MX, sd, acs)
    rec = Recorder(sc)
    out = sc.damping_derivatives(aircraft=name, dtheta_dot=dw, **frames)[name]
    rec.stop()
    st = [a for a in acs if a[0] == name][0][2]
    ap = sc._airplanes[name]
    W = np.array(sc._get_wind(ap.p_bar), dtype=float)
    V = float(np.linalg.norm(np.array(ap.v) - W))
    S, c, b = sc.get_aircraft_reference_geometry(aircraft=name)
    keys = frame_keys(frames)
    for j, (tag, l) in enumerate((("pbar", b), ("qbar", c), ("rbar", b))):
        res = []
        for sgn in (+1, -1):
            s2 = copy.deepcopy(st)
            s2["angular_rates"] = list(st["angular_rates"])
            s2["angular_rates"][j] += sgn * dw          # in the frame the rates were given
            res.append(fresh_totals(MX, sd, with_state(acs, name, st=s2), frames)[name]["total"])
        for k in keys:
            exp = (res[0][k] - res[1][k]) / (2 * dw) * (2 * V / l)
            got = out["%s,%s" % (k, tag)]
            if not abs(got - exp) <= 2e-5 * (abs(exp) + 1e-3):
                return "damping:%s,%s:%s" % (k, tag, st["angular_rate_frame"]), dict(key="%s,%s" % (k, tag), reported=got, independent=exp,
                                                                                     frame=st["angular_rate_frame"], V=V, l=l)
        f = lambda i: [rec.calls[i]["result"][name]["total"][k] for k in keys]
        cases.append("chk_damp %s %s %s %s %s %s" % (fhex(1 / (2 * dw)), fhex(ap.get_aerodynamic_state(v_wind=W)[2]), fhex(l), flist(f(2 * j)), flist(f(2 * j + 1)),
                                                     flist([out["%s,%s" % (k, tag)] for k in keys])))
        descr.append(dict(what="damping," + tag))
    exp_keys = set("%s,%s" % (k, t) for k in keys for t in ("pbar", "qbar", "rbar"))
    if set(out.keys()) != exp_keys:
        return "damping:keys", dict(expected=sorted(exp_keys), got=sorted(out.keys()))
    return None, None


def check_control(chk, MX, sd, acs, frames, name, cases, descr):
    rng = chk.rng
    dth = rng.choice([0.5, 0.25])
    sc = gen.build_scene(MX, sd, acs)
    rec = Recorder(sc)
    # the control states the analysis hands to the aircraft (forward, backward, reset for every control in turn)
    ap_ = sc._airplanes[name]
    handed, orig_set = [], ap_.set_control_state
    def recording_set(control_state={}):
        handed.append(copy.deepcopy(control_state))
        return orig_set(control_state)
    ap_.set_control_state = recording_set
    try:
        out = sc.control_derivatives(aircraft=name, dtheta=dth, **frames)[name]
    finally:
        del ap_.set_control_state
    rec.stop()
    cs = [a for a in acs if a[0] == name][0][3]
    keys = frame_keys(frames)
    for j, cname in enumerate(sc._airplanes[name].control_names):
        res = []
        for sgn in (+1, -1):
            c2 = dict(cs)
            cur = cs.get(cname, 0.0)
            # (a deflection given as a span-wise table is shifted as a whole: the control input changes by the step at every section)
            c2[cname] = [[r_[0], r_[1] + sgn * dth] for r_ in cur] if isinstance(cur, list) else cur + sgn * dth
            res.append(fresh_totals(MX, sd, with_state(acs, name, cs=c2), frames)[name]["total"])
        for k in keys:
            exp = (res[0][k] - res[1][k]) / (2 * math.radians(dth))
            got = out["%s,d%s" % (k, cname)]
            if not abs(got - exp) <= 2e-5 * (abs(exp) + 1e-3):
                return "control:%s,d%s" % (k, cname), dict(key="%s,d%s" % (k, cname), reported=got, independent=exp)
        if isinstance(cs.get(cname), list) and len(handed) >= 3 * j + 2:
            # a table-valued input: the tables handed over are the model's shift of the recorded table by +step / -step
            tb = lambda t_: "[" + "; ".join("(%s, %s)" % (fhex(float(r_[0])), fhex(float(r_[1]))) for r_ in np.asarray(t_, dtype=float)) + "]"
            cases.append("chk_shift_table %s %s %s && chk_shift_table %s %s %s" % (tb(cs[cname]), fhex(dth), tb(handed[3 * j][cname]),
                                                                                 tb(cs[cname]), fhex(-dth), tb(handed[3 * j + 1][cname])))
            descr.append(dict(what="control-step-on-table," + cname))
        f = lambda i: [rec.calls[i]["result"][name]["total"][k] for k in keys]
        cases.append("chk_cdiv %s %s %s %s" % (fhex(2 * np.radians(dth)), flist(f(2 * j)), flist(f(2 * j + 1)),
                                               flist([out["%s,d%s" % (k, cname)] for k in keys])))
        descr.append(dict(what="control," + cname))
    return None, None


def check_state(chk, MX, sd, acs, name, cases=None, descr=None):
    rng = chk.rng
    H = MX.helpers
    steps = dict(dx=rng.choice([0.5, 5.0]), dV=rng.choice([0.5, 2.0]), de=rng.choice([0.001, 0.1, 0.1]), dw=rng.choice([0.01, 0.05]))      # also steps far from the defaults
    if len(acs) > 1 or sd["scene"]["atmosphere"].get("rho") == "standard":
        steps["dx"] = 40.0          # a position step over which the other aircraft / the atmosphere really change
    sc = gen.build_scene(MX, sd, acs)
    # the states the analysis hands to the aircraft (forward and backward for each of the twelve variables, then the reset)
    ap_ = sc._airplanes[name]
    s0_ = [np.array(x, dtype=float) for x in ap_.get_state()]          # Earth-fixed velocity, body rates, position, attitude
    handed, orig_set = [], ap_.set_state
    def recording_set(**kw):
        handed.append({k_: np.array(v_, dtype=float).copy() for k_, v_ in kw.items() if k_ in ("position", "velocity", "orientation", "angular_rates")})
        return orig_set(**kw)
    ap_.set_state = recording_set
    try:
        out = sc.state_derivatives(aircraft=name, **steps)[name]
    finally:
        del ap_.set_state
    if cases is not None and len(handed) >= 24:
        from harness.common import fv3, fq4
        arg = lambda h_: "(%s, %s, %s, %s)" % (fv3(h_["position"]), fv3(h_["velocity"]), fq4(h_["orientation"]), fv3(h_["angular_rates"]))
        st_ = "%s %s %s %s" % (fv3(s0_[0]), fv3(s0_[1]), fv3(s0_[2]), fq4(s0_[3]))
        for r_ in range(9):
            d_ = (steps["dV"], steps["dx"], steps["dw"])[r_ // 3]
            cases.append("chk_sd_args %s %d%%nat %d%%nat %s %s %s" % (st_, r_ // 3, r_ % 3, fhex(d_), arg(handed[2 * r_]), arg(handed[2 * r_ + 1])))
            descr.append(dict(what="state-derivative-states,%s%d" % (("velocity", "position", "rates")[r_ // 3], r_ % 3)))
        for r_ in range(3):
            cases.append("chk_sd_args_q %s %d%%nat %s %s %s" % (st_, r_, fhex(steps["de"]), arg(handed[18 + 2 * r_]), arg(handed[19 + 2 * r_])))
            descr.append(dict(what="state-derivative-states,attitude%d" % r_))
    base = gen.build_scene(MX, sd, acs)
    ap = base._airplanes[name]
    v0, w0, p0, q0 = [np.array(x, dtype=float) for x in ap.get_state()]
    vb = H.quat_trans(q0, v0)
    FK = ["Fx", "Fy", "Fz", "Mx", "My", "Mz"]
    frames = dict(body_frame=True, stab_frame=False, wind_frame=False)

    def totals(p, vbody, q, w):
        st = {"position": p.tolist(), "velocity": vbody.tolist(), "orientation": q.tolist(), "angular_rates": w.tolist()}
        return fresh_totals(MX, sd, with_state(acs, name, st=st), frames, dimensional=True)[name]["total"]
    plan = []
    for i, t in enumerate(("u", "v", "w")):
        e = np.zeros(3); e[i] = steps["dV"]
        plan.append((t, steps["dV"], (p0, vb + e, q0, w0), (p0, vb - e, q0, w0)))
    for i, t in enumerate(("x_f", "y_f", "z_f")):
        e = np.zeros(3); e[i] = steps["dx"]
        plan.append((t, steps["dx"], (p0 + e, vb, q0, w0), (p0 - e, vb, q0, w0)))
    for i, t in enumerate(("p", "q", "r")):
        e = np.zeros(3); e[i] = steps["dw"]
        plan.append((t, steps["dw"], (p0, vb, q0, w0 + e), (p0, vb, q0, w0 - e)))
    for i, t in enumerate(("qx", "qy", "qz")):
        dq = np.array([1.0, 0.0, 0.0, 0.0]); dq[i + 1] = 0.5 * steps["de"]; dq = dq / np.linalg.norm(dq)
        dqc = np.array([dq[0], -dq[1], -dq[2], -dq[3]])
        qf, qb = np.array(api.quat_mult(q0, dq)), np.array(api.quat_mult(q0, dqc))
        # the Earth-fixed velocity is held constant
        plan.append((t, steps["de"], (p0, H.quat_trans(qf / np.linalg.norm(qf), v0), qf, w0), (p0, H.quat_trans(qb / np.linalg.norm(qb), v0), qb, w0)))
    for t, h, fw, bw in plan:
        a, b = totals(*fw), totals(*bw)
        for k in FK:
            exp = (a[k] - b[k]) / (2 * h)
            got = out["d%s,d%s" % (k, t)]
            scale = abs(exp) + 1e-3 * (abs(a[k]) / h) + 1e-6
            if not abs(got - exp) <= 2e-4 * scale:
                return "state:d%s,d%s" % (k, t), dict(key="d%s,d%s" % (k, t), reported=got, independent=exp, step=h)
    return None, None


def check_state_integers(chk, MX):
    """the same state written with integers and with floats: the same state derivatives"""
    rng = chk.rng
    ac = gen.simple_wing_aircraft(N=3, b=rng.uniform(3, 5))
    sd = {"solver": {"type": "nonlinear"}, "scene": {"atmosphere": {"rho": "standard"}}}
    sti = {"velocity": rng.randint(70, 120), "alpha": rng.randint(1, 5), "beta": rng.randint(-3, 3), "angular_rates": [0, 0, 0],
           "position": [rng.randint(-50, 50), rng.randint(-50, 50), -rng.randint(500, 3000)], "orientation": [rng.randint(-20, 20), rng.randint(-10, 10), rng.randint(-90, 90)]}
    stf = {k: ([float(x) for x in v] if isinstance(v, list) else float(v)) for k, v in sti.items()}
    di = gen.build_scene(MX, sd, [("a", ac, sti, {})]).state_derivatives()["a"]
    df = gen.build_scene(MX, sd, [("a", ac, stf, {})]).state_derivatives()["a"]
    bad = api.compare(di, df, rtol=1e-7, atol=1e-9)
    chk.case(dict(kind="state-integers"), nontrivial=True)
    if bad:
        return "state:integers-vs-floats", dict(state_integers=sti, differences=bad[:8])
    return None, None


def run(chk):
    MX = common.setup_env()
    import machupX.helpers as H
    MX.helpers = H
    chk.proofs(extra_trusted=[
        "correspondence: the difference/normalisation formulas of Model/Analyses.v evaluated on binary64 from the solve_forces results recorded "
        "inside the live derivative functions, bit-exact against the returned tables",
        "independent oracle: every reported key recomputed from solves on freshly built scenes at the documented perturbed states",
        "hypothesis HA (alpha/beta/V encoding round trip) on the trig oracle"])
    rng = chk.rng
    cases, descr = [], []
    n = chk.q(12, 120)
    kinds = ["stability", "damping", "control", "state", "union"]
    sig0, det0 = check_state_integers(chk, MX)
    if sig0:
        chk.violation(sig0, dict(kind="derivatives", what=sig0, detail=det0))
    for i in range(n):
        kind = kinds[i % len(kinds)]
        # what must not be left to chance in a short run: state derivatives where the loads depend on the position (standard atmosphere; a
        # second aircraft), the union and its selection with two aircraft
        rnd = i // len(kinds)
        force_multi = True if (kind == "union" and rnd == 0) or (kind == "state" and rnd == 1) else (False if (kind == "state" and rnd == 0) else None)
        force_rho = "standard" if (kind == "state" and rnd == 0) else None
        # damping derivatives: rates given in stability, wind and body axes in turn, every output frame in the first two rounds
        force_rate_frame = ("stab", "wind", "body")[rnd % 3] if kind == "damping" else None
        sd, acs, frames = gen_case(chk, MX, force_multi=force_multi, force_rho=force_rho, force_rate_frame=force_rate_frame,
                                   all_frames=(kind in ("damping", "stability") and rnd < 2))
        name = rng.choice([a[0] for a in acs])
        if kind == "state" and rnd == 0:
            # (enumerated) a wind profile with a node a few feet above the aircraft: over the position step the loads are not linear in the
            # altitude, so the derivative depends on the step that was asked for
            h_ = -[a_ for a_ in acs if a_[0] == name][0][2]["position"][2]
            sd["scene"]["atmosphere"]["V_wind"] = [[h_ - 4000.0, 5.0, -3.0, 0.0], [h_ + 15.0, 12.0, 4.0, 1.0], [h_ + 4000.0, -20.0, 10.0, -2.0]]
            chk.count("state=wind-profile-node-within-step")
        if kind == "control" and rnd == 1:
            # (enumerated) a control set as a span-wise distribution of deflections (documented: float or array)
            cs_ = dict([a_ for a_ in acs if a_[0] == name][0][3])
            e_ = int(round(cs_["elevator"]))
            cs_["elevator"] = [[0, e_], [1, e_ + 2]]          # (written with integers, as JSON files often have it)
            acs = with_state(acs, name, cs=cs_)
            chk.count("control=table")
        try:
            if kind == "stability":
                sig, det = check_stability(chk, MX, sd, acs, frames, name, cases, descr)
            elif kind == "damping":
                sig, det = check_damping(chk, MX, sd, acs, frames, name, cases, descr)
            elif kind == "control":
                sig, det = check_control(chk, MX, sd, acs, frames, name, cases, descr)
            elif kind == "state":
                sig, det = check_state(chk, MX, sd, acs, name, cases, descr)
            else:
                sc = gen.build_scene(MX, sd, acs)
                d = sc.derivatives(**frames)
                sig, det = None, None
                for nm in sc._airplanes:
                    parts = dict(stability=gen.build_scene(MX, sd, acs).stability_derivatives(aircraft=nm, **frames)[nm],
                                 damping=gen.build_scene(MX, sd, acs).damping_derivatives(aircraft=nm, **frames)[nm],
                                 control=gen.build_scene(MX, sd, acs).control_derivatives(aircraft=nm, **frames)[nm])
                    bad = api.compare(d[nm], parts, rtol=1e-5, atol=2e-7)      # central differences of solves converged to 1e-10: noise ~ 1e-10 / step
                    if bad or set(d[nm].keys()) != set(parts.keys()):
                        sig, det = "union", dict(differences=bad[:6])
                # restricted to named aircraft
                if len(acs) > 1:
                    try:
                        dn = sc.derivatives(aircraft=name, **frames)
                        if set(dn.keys()) != {name}:
                            sig, det = "union:selection", dict(requested=name, got=sorted(dn.keys()))
                    except Exception as e:
                        sig, det = "union:selection-raises", dict(requested=name, error=repr(e))
        except Exception as e:
            if type(e).__name__ in ("SolverNotConvergedError",):
                chk.count("nonconverged=" + kind)
                continue
            sig, det = "raises:%s:%s" % (kind, type(e).__name__), dict(error=repr(e))
        st0 = acs[0][2]
        chk.case(dict(kind=kind, frames=frames, rate_frame=st0["angular_rate_frame"], wind="V_wind" in sd["scene"]["atmosphere"], i=i),
                 nontrivial=True)
        chk.count("kind=%s/%s" % (kind, st0["angular_rate_frame"]))
        if sig:
            chk.violation(sig, dict(kind="derivative", scene=sd, aircraft=acs, frames=frames, target=name, detail=det))
    failing, nfiles, errors = common.run_cases("C09", IMPORTS, [], cases)
    chk.cov["traces_validated_against_impl"] = len(cases)
    chk.cov["correspondence_cases"] = len(cases)
    if errors:
        chk.fail_obligation("correspondence:C09(case files do not compile)", "\n".join(errors)[-3000:])
    elif failing and not chk.violations and not chk.known_hits:
        chk.fail_obligation("correspondence:Model/Analyses.v:" + descr[failing[0]]["what"], json.dumps(dict(n_disagreements=len(failing))))
    return chk.finish(rule="scenes with non-zero alpha, beta, rates (given in body/stab/wind axes), controls, arbitrary attitude/position, wind in half, "
                           "standard or constant density, 1-2 aircraft, random frame selections and step sizes: every key of stability, damping, control "
                           "and state derivatives recomputed from fresh-scene solves at the perturbed states; derivatives() vs the union")


def replay(chk, path):
    print(json.dumps(json.load(open(path)), indent=1, default=str)[:3000])
    return 0
