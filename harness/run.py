import sys, importlib, traceback
from harness import common


def main():
    if len(sys.argv) < 2:
        print("usage: check <Cxx> [--tier quick|thorough] [--replay f]")
        return 2
    pid = sys.argv[1]
    mod = importlib.import_module("harness.props." + pid)
    chk = common.Check(pid, getattr(mod, "LEVEL", "proof"), sys.argv[2:])
    try:
        common.setup_env()
        if chk.replay:
            return mod.replay(chk, chk.replay)
        return mod.run(chk)
    except Exception:
        # a crash of the machinery is reported as a broken obligation, never as success
        tb = traceback.format_exc()
        print(tb)
        chk.fail_obligation("harness-crash", tb[-3000:])
        return chk.finish(rule="harness crashed", explanation="harness crashed: see replay")


if __name__ == "__main__":
    sys.exit(main())
