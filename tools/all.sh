#!/bin/bash
# tools/all.sh [quick|thorough] : run every registered check in sequence, summarise
tier=${1:-quick}
cd "$(dirname "$0")/.."
for c in C01 C02 C03 C04 C05 C06 C07 C08 C09 C10 C11 C12 C13 C14 C15 C16 C17 C18 C19 C20; do
  ./check $c --tier $tier 2>&1 | grep -E "^VIOLATION|^KNOWN|^C[0-9]+:" 
done
