#!/bin/bash
# tools/confirm_seed.sh <dir with patch.diff and demo.py> : confirm a seeded change in a scratch worktree (/tmp/wt_confirm):
# applies, test suite unchanged (62 passed), demo exits 1 with the patch and 0 without.
d="$(realpath "$1")"; wt=/tmp/wt_confirm
cd $wt || exit 2
git checkout -q -- . ; git clean -fdq -e _seed
git apply --check "$d/patch.diff" || { echo "CONFIRM $1: patch does not apply"; exit 2; }
if git diff --quiet 2>/dev/null; then :; fi
git apply "$d/patch.diff"
changed=$(git diff --name-only | tr '\n' ' ')
t=$(PYTHONPATH=$wt /venv/bin/python -m pytest -q -p no:cacheprovider 2>&1 | tail -1)
mkdir -p $wt/_seed/x && cp "$d/demo.py" $wt/_seed/x/demo.py
PYTHONPATH=$wt timeout 900 /venv/bin/python _seed/x/demo.py > /tmp/confirm_patched.out 2>&1; rp=$?
git checkout -q -- .
PYTHONPATH=$wt timeout 900 /venv/bin/python _seed/x/demo.py > /tmp/confirm_clean.out 2>&1; rc=$?
rm -rf $wt/_seed
echo "CONFIRM $1: files=[$changed] tests=[$t] demo_patched_exit=$rp demo_clean_exit=$rc"
