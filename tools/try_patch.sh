#!/bin/bash
# tools/try_patch.sh <patch.diff> <Cxx> [Cyy ...] : apply a seeded change to /repo, run the checks, always undo.
patch="$(realpath "$1")"; shift
cd /verif
if ! git -C /repo diff --quiet; then echo "repo has uncommitted changes"; exit 2; fi
git -C /repo apply "$patch" || { echo "patch does not apply"; exit 2; }
trap 'git -C /repo checkout -- . ; find /repo -name "__pycache__" -prune -exec rm -rf {} + 2>/dev/null' EXIT
for c in "$@"; do
  out=$(VERIF_TIER=${VERIF_TIER:-quick} ./check "$c" 2>&1 | grep -E "^VIOLATION|^KNOWN|^C[0-9]+:")
  echo "$out" | grep -E "^VIOLATION|^KNOWN" | head -3
  echo "$out" | grep -E "^C[0-9]+:" | tail -1
done
