#!/bin/bash
# tools/par_seeds.sh <jobs> <file with lines: "<seed dir> <Cxx> [Cyy ...]"> : run checks against seeded changes in parallel.
# Every job gets its own copy of /verif and its own worktree of /repo under /tmp/par (removed afterwards); /repo itself is untouched.
jobs=$1; list=$2
mkdir -p /tmp/par
run_one() {
  line="$1"; set -- $line; seed="$1"; shift
  id=$(basename "$seed"); W=${PAR_ROOT:-/tmp/par}/$id
  rm -rf "$W"; mkdir -p "$W"
  rsync -a --exclude .git --exclude replays --exclude evidence /verif/ "$W/verif/"
  git -C /repo worktree add -q --detach "$W/repo" HEAD 2>/dev/null
  if ! git -C "$W/repo" apply "$(realpath $seed)/patch.diff" 2>/dev/null; then echo "$id: patch-does-not-apply"; git -C /repo worktree remove --force "$W/repo" 2>/dev/null; rm -rf "$W"; return; fi
  res=""
  for c in "$@"; do
    out=$(cd "$W/verif" && MACHUPX_REPO="$W/repo" OMP_NUM_THREADS=2 ./check "$c" 2>&1 | grep -E "^C[0-9]+: " | tail -1 | awk '{print $1 $2 "(" $4 ")"}')
    res="$res $out"
  done
  echo "$id:$res"
  git -C /repo worktree remove --force "$W/repo" 2>/dev/null; rm -rf "$W"
}
export -f run_one
grep -v "^#" "$list" | grep . | xargs -P "$jobs" -I{} bash -c 'run_one "{}"'
git -C /repo worktree prune
