#!/bin/bash
# tools/import_seed2.sh <Cxx> <k> <check ...> : round-4 sub-agent seed (worktree /tmp/wt4_Cxx) -> seeded/agent4-Cxx-k, confirm, run the checks
p=$1; k=$2; shift 2
src=/tmp/wt4_$p/_seed/$k; dst=/verif/seeded/agent4-$p-$k
mkdir -p $dst; cp $src/patch.diff $src/demo.py $src/README.md $dst/ 2>/dev/null
/verif/tools/confirm_seed.sh $dst | cut -c1-70,110-220
out=$(VERIF_TIER=${VERIF_TIER:-quick} /verif/tools/try_patch.sh $dst/patch.diff "$@" 2>&1)
echo "== agent4-$p-$k  checks: $*"; echo "$out" | grep -E "^C[0-9]+:|apply|uncommitted"
