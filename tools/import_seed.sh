#!/bin/bash
# tools/import_seed.sh <Cxx> <k> <check ...> : copy a confirmed sub-agent seed into seeded/, run the given checks against it on /repo
p=$1; k=$2; shift 2
src=/tmp/wt_$p/_seed/$k; dst=/verif/seeded/agent-$p-$k
mkdir -p $dst; cp $src/patch.diff $src/demo.py $src/README.md $dst/ 2>/dev/null
out=$(VERIF_TIER=${VERIF_TIER:-quick} /verif/tools/try_patch.sh $dst/patch.diff "$@" 2>&1)
echo "== agent-$p-$k  checks: $*"; echo "$out" | grep -E "^VIOLATION|^KNOWN|^C[0-9]+:|apply|uncommitted"
echo "$out" > $dst/last_run.txt
