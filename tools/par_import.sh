#!/bin/bash
# tools/par_import.sh <round> <jobs> <Cxx> ... : import the sub-agent seeds /tmp/wt<round>_Cxx/_seed/{1,2,3} as seeded/agent<round>-Cxx-k,
# confirm each in its own worktree (patch applies, test suite unchanged, demo 1 / 0) and run the property's own check in its own copy of /verif.
round=$1; jobs=$2; shift 2
mkdir -p /tmp/par
one() {
  round=$1; p=$2; k=$3
  src=/tmp/wt${round}_$p/_seed/$k; id=agent${round}-$p-$k; dst=/verif/seeded/$id
  [ -f $src/patch.diff ] || { echo "$id: no seed"; return; }
  mkdir -p $dst; cp $src/patch.diff $src/demo.py $src/README.md $dst/ 2>/dev/null
  W=/tmp/par/$id; rm -rf $W; mkdir -p $W
  git -C /repo worktree add -q --detach $W/repo HEAD 2>/dev/null
  cd $W/repo
  if ! git apply $dst/patch.diff 2>/dev/null; then echo "$id: patch-does-not-apply"; cd /; git -C /repo worktree remove --force $W/repo; rm -rf $W; return; fi
  t=$(PYTHONPATH=$W/repo OMP_NUM_THREADS=2 /venv/bin/python -m pytest -q -p no:cacheprovider 2>&1 | tail -1 | sed 's/ in .*//')
  mkdir -p _seed/x; cp $dst/demo.py _seed/x/demo.py
  PYTHONPATH=$W/repo OMP_NUM_THREADS=2 timeout 1200 /venv/bin/python _seed/x/demo.py >/dev/null 2>&1; rp=$?
  rsync -a --exclude .git --exclude replays --exclude evidence /verif/ $W/verif/
  chk=$(cd $W/verif && MACHUPX_REPO=$W/repo OMP_NUM_THREADS=2 ./check $p 2>&1 | grep -E "^C[0-9]+: " | tail -1 | awk '{print $1 $2 "(" $4 ")"}')
  git checkout -q -- machupX
  PYTHONPATH=$W/repo OMP_NUM_THREADS=2 timeout 1200 /venv/bin/python _seed/x/demo.py >/dev/null 2>&1; rc=$?
  cd /; git -C /repo worktree remove --force $W/repo 2>/dev/null; rm -rf $W
  echo "$id: tests=[$t] demo_patched=$rp demo_clean=$rc own-check $chk"
}
export -f one
for p in "$@"; do for k in 1 2 3; do echo "$round $p $k"; done; done | xargs -P $jobs -L1 bash -c 'one $0 $1 $2'
git -C /repo worktree prune
