import json,sys
pid=sys.argv[1]
p=json.load(open('/tmp/prop_%s.json'%pid))
wt='/tmp/wt_%s'%pid
print(f"""You are helping to test a verification framework by producing realistic *faulty* variants of a Python library.

The library is MachUpX (a numerical lifting-line aerodynamics code). You have your own scratch git worktree of it at {wt} (detached HEAD). Work ONLY inside {wt}. Never read or write /repo or /verif (they are off limits), and do not create files outside {wt}.

How to run things:
  - Python: /venv/bin/python   (numpy, scipy, airfoil_db, numpy-stl are installed there)
  - ALWAYS set PYTHONPATH={wt} so that `import machupX` picks up your worktree, e.g.
        cd {wt} && PYTHONPATH={wt} /venv/bin/python your_script.py
  - The existing test suite:  cd {wt} && PYTHONPATH={wt} /venv/bin/python -m pytest -q -p no:cacheprovider
    On the unmodified tree this gives "62 passed, 1 failed" (test/main_tests/test_main.py::test_main always fails in this sandbox because it spawns a bare `python`; ignore that one failure).
  - No network. Do not install anything.

This is the property (a semantic property a user of MachUpX relies on). It HOLDS on the unmodified worktree:

{json.dumps(p, indent=1)}

(The line numbers in "anchors" refer to a slightly older revision; use them as hints for where to look.)

YOUR TASK: produce 3 different small source changes to files under {wt}/machupX/ (each one independent, each applied to the unmodified tree), such that each change
  (a) still imports/runs, and the existing test suite still gives exactly the same result (62 passed, only test_main failing);
  (b) BREAKS the property above - i.e. there is a concrete input / configuration / call history for which the property's statement is now false;
  (c) is REALISTIC - the kind of slip a maintainer could make in a refactor or feature change (an off-by-one, a wrong sign in one branch, a dropped cache invalidation, a condition that is slightly too narrow, swapped arguments, a forgotten case ...), NOT sabotage like `if x == 3.14159: return garbage`, not random noise, not something that breaks everything;
  (d) needs something SPECIFIC to manifest: it should be invisible for the plain default configuration the tests use (a single standard aeroplane, default options) and only show for particular inputs (e.g. a left-only wing, a non-default solver option, a second aircraft, a particular call order, a non-unit quaternion, SI units, a specific grid type ...). Prefer changes whose effect is subtle (small numerical change, or only in one output key / one frame / one branch) over ones that crash loudly. Make the three changes different in kind and in the code they touch.

For each change k = 1, 2, 3 create the directory {wt}/_seed/k/ containing:
  - patch.diff : the output of `git diff` for that change alone (relative to the unmodified HEAD; must apply with `git apply` from the repository root). Only files under machupX/ may be changed.
  - demo.py    : a self-contained script (run as `cd {wt} && PYTHONPATH={wt} /venv/bin/python _seed/k/demo.py`) that builds the specific input, exercises the public API (machupX.Scene etc.), and prints clearly what the property demands and what is observed; it must exit with status 1 when the property is violated and 0 when it holds. It must exit 0 on the unmodified tree and 1 with the patch applied. Do not hard-code numbers taken from the patched code; compare the two sides of the property (e.g. two equivalent descriptions, before/after, model formula vs output).
  - README.md  : 5-15 lines: what was changed and why it is a plausible slip, what specific input is needed to see it, why the existing tests do not notice, and the exact output of demo.py on the unmodified and on the patched tree.

Procedure for each change: make the edit; run the test suite; run demo.py (must exit 1); save `git diff > _seed/k/patch.diff`; then `git checkout -- machupX` to return to the unmodified tree; run demo.py again (must exit 0). At the end make sure the worktree's machupX/ is unmodified (`git status` shows only the untracked _seed/ directory).

Finish with a short summary (one paragraph per change: file/function touched, the trigger input, observed effect). If you cannot find three, deliver as many as you can and say what you tried.
""")
