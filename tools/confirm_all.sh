#!/bin/bash
# confirm all seeds of the given properties (e.g. C01 C04) and append to /tmp/confirm.log
for p in "$@"; do for k in 1 2 3; do d=/tmp/wt_$p/_seed/$k; [ -f $d/patch.diff ] && /verif/tools/confirm_seed.sh $d >> /tmp/confirm.log 2>&1; done; done
