#!/bin/bash
# Offline build of the whole Coq development (full .vo build) from files on disk.
set -e
cd "$(dirname "$0")"
export PYTHONHASHSEED=0 PYTHONPATH=${MACHUPX_REPO:-/repo} MPLBACKEND=Agg PYTHONDONTWRITEBYTECODE=1
/venv/bin/python -m harness.live 2> >(grep -v conda >&2)
cd coq
coq_makefile -f _CoqProject -o Makefile
timeout 3000 make -j16
