"""C07: a set_aircraft_state call that MachUpX rejects (IOError) must leave the scene as it was.
Pinned snapshot: Airplane.set_state stores the new position and orientation before it validates the velocity, so after the
rejected call the aircraft has the new attitude with the old Earth-fixed velocity, the scene geometry is not rebuilt and the
stored results are still flagged as current.  Exit 1 if the loads after the rejected call differ from those before it."""
import sys, copy
import numpy as np
import machupX as MX

AF = {"af0": {"type": "linear", "aL0": -0.03, "CLa": 6.2832, "CmL0": -0.02, "Cma": 0.01, "CD0": 0.006, "CD1": -0.002, "CD2": 0.01, "geometry": {"NACA": "0010"}}}
AC = {"CG": [0, 0, 0], "weight": 50.0, "airfoils": AF,
      "wings": {"main": {"ID": 1, "side": "both", "is_main": True, "semispan": 4.0, "chord": 1.0, "airfoil": "af0", "grid": {"N": 8}}}}
s = MX.Scene({"solver": {"type": "nonlinear"}, "units": "English", "scene": {"atmosphere": {"rho": 0.0023769}}})
s.add_aircraft("p", copy.deepcopy(AC), state={"velocity": [100.0, 0.0, 5.0]})
before = s.solve_forces(verbose=False)["p"]["total"]
try:
    s.set_aircraft_state({"velocity": [100.0, 0.0, 5.0], "alpha": 2.0, "orientation": [30.0, 10.0, 0.0], "position": [0.0, 0.0, -100.0]})
    print("the contradictory state was accepted"); sys.exit(1)
except IOError as e:
    print("rejected:", e)
after = s.solve_forces(verbose=False)["p"]["total"]
print("FL before %.6f  after the rejected call %.6f" % (before["FL"], after["FL"]))
a = s._airplanes["p"]
print("after the rejected call: position", a.p_bar.tolist(), "quaternion", np.round(a.q, 4).tolist(), "Earth-fixed velocity", np.round(a.v, 4).tolist())
bad = max(abs(after[k] - before[k]) for k in before) > 1e-9 * max(1.0, abs(before["FL"]))
print("VIOLATED" if bad else "holds")
sys.exit(1 if bad else 0)
