"""Aside 1 (unmodified tree): a position handed over as a NumPy array is kept by reference.
A simulation loop that updates its position array in place and passes it to set_aircraft_state() again
gets no geometry/atmosphere refresh: the aircraft compares the "old" position with itself.
Expected: lift at 30000 ft in the standard atmosphere equals that of a fresh scene there.  Exit 1 if not."""
import sys, copy, warnings
import numpy as np
import machupX as MX
warnings.simplefilter("ignore")

AIRFOILS = {
    "NACA_0010": {"type": "linear", "aL0": 0.0, "CLa": 6.4336, "CmL0": 0.0, "Cma": 0.0,
                  "CD0": 0.00513, "CD1": 0.0, "CD2": 0.0984, "CL_max": 1.4, "geometry": {"NACA": "0010"}},
    "NACA_2410": {"type": "linear", "aL0": -0.0368, "CLa": 6.1976, "CmL0": -0.0525, "Cma": 0.0326,
                  "CD0": 0.00569, "CD1": -0.0045, "CD2": 0.0104, "CL_max": 1.4, "geometry": {"NACA": "2410"}},
}


def airplane(N=6):
    return {
        "CG": [0.0, 0.0, 0.0], "weight": 50.0,
        "reference": {"area": 8.0, "longitudinal_length": 1.0, "lateral_length": 8.0},
        "controls": {"aileron": {"is_symmetric": False}, "elevator": {"is_symmetric": True}},
        "airfoils": copy.deepcopy(AIRFOILS),
        "wings": {
            "main_wing": {"ID": 1, "side": "both", "is_main": True, "semispan": 4.0, "airfoil": "NACA_2410",
                          "control_surface": {"chord_fraction": 0.1, "control_mixing": {"aileron": 1.0}}, "grid": {"N": N}},
            "h_stab": {"ID": 2, "side": "both", "is_main": False, "connect_to": {"ID": 1, "location": "root", "dx": -3.0},
                       "semispan": 2.0, "airfoil": "NACA_0010",
                       "control_surface": {"chord_fraction": 0.5, "control_mixing": {"elevator": 1.0}}, "grid": {"N": N}},
        },
    }


def scene_input(atmosphere=None):
    return {"solver": {"type": "nonlinear", "convergence": 1e-10}, "units": "English", "scene": {"atmosphere": atmosphere or {}}}

pos = np.array([0.0, 0.0, 0.0])
state = {"position": pos, "velocity": 100.0, "alpha": 3.0}

used = MX.Scene(scene_input({"rho": "standard"}))
used.add_aircraft("plane", airplane(), state=state)
FL0 = used.solve_forces()["plane"]["total"]["FL"]

pos[2] = -30000.0                       # the caller's own array, updated in place ...
used.set_aircraft_state(state=state)    # ... and given to the scene again (a plain public call)
FL_used = used.solve_forces()["plane"]["total"]["FL"]

fresh = MX.Scene(scene_input({"rho": "standard"}))
fresh.add_aircraft("plane", airplane(), state={"position": [0.0, 0.0, -30000.0], "velocity": 100.0, "alpha": 3.0})
FL_fresh = fresh.solve_forces()["plane"]["total"]["FL"]

print("FL at sea level                          : %.6f" % FL0)
print("FL at 30000 ft, used scene  (observed)   : %.6f" % FL_used)
print("FL at 30000 ft, fresh scene (expected)   : %.6f" % FL_fresh)
bad = abs(FL_used - FL_fresh) > 1e-6*abs(FL_fresh)
print("VIOLATION: density of the earlier position is still in use" if bad else "holds")
sys.exit(1 if bad else 0)
