"""Aside 2 (unmodified tree): a control deflection given as a spanwise distribution (documented: "float or array").
control_derivatives() (also derivatives(), pitch_trim()) adds its step to the whole array - span locations
included - so the perturbed setting is rejected with an IOError; the call leaves the aircraft with the elevator
surface reset to zero and a corrupted recorded control state, so every later query describes another state.
Expected: after the failed call the scene still returns the forces of the state it was given.  Exit 1 if not."""
import sys, copy, warnings
import numpy as np
import machupX as MX
warnings.simplefilter("ignore")

AIRFOILS = {
    "NACA_0010": {"type": "linear", "aL0": 0.0, "CLa": 6.4336, "CmL0": 0.0, "Cma": 0.0,
                  "CD0": 0.00513, "CD1": 0.0, "CD2": 0.0984, "CL_max": 1.4, "geometry": {"NACA": "0010"}},
    "NACA_2410": {"type": "linear", "aL0": -0.0368, "CLa": 6.1976, "CmL0": -0.0525, "Cma": 0.0326,
                  "CD0": 0.00569, "CD1": -0.0045, "CD2": 0.0104, "CL_max": 1.4, "geometry": {"NACA": "2410"}},
}


def airplane(N=6):
    return {
        "CG": [0.0, 0.0, 0.0], "weight": 50.0,
        "reference": {"area": 8.0, "longitudinal_length": 1.0, "lateral_length": 8.0},
        "controls": {"aileron": {"is_symmetric": False}, "elevator": {"is_symmetric": True}},
        "airfoils": copy.deepcopy(AIRFOILS),
        "wings": {
            "main_wing": {"ID": 1, "side": "both", "is_main": True, "semispan": 4.0, "airfoil": "NACA_2410",
                          "control_surface": {"chord_fraction": 0.1, "control_mixing": {"aileron": 1.0}}, "grid": {"N": N}},
            "h_stab": {"ID": 2, "side": "both", "is_main": False, "connect_to": {"ID": 1, "location": "root", "dx": -3.0},
                       "semispan": 2.0, "airfoil": "NACA_0010",
                       "control_surface": {"chord_fraction": 0.5, "control_mixing": {"elevator": 1.0}}, "grid": {"N": N}},
        },
    }


def scene_input(atmosphere=None):
    return {"solver": {"type": "nonlinear", "convergence": 1e-10}, "units": "English", "scene": {"atmosphere": atmosphere or {}}}

controls = {"elevator": [[0.0, 2.0], [1.0, 4.0]]}     # 2 deg at the root of the surface, 4 deg at its tip
state = {"velocity": 100.0, "alpha": 3.0}

used = MX.Scene(scene_input())
used.add_aircraft("plane", airplane(), state=state, control_state=controls)
before = used.solve_forces()["plane"]["total"]
try:
    used.control_derivatives()
    print("control_derivatives() returned")
except Exception as e:
    print("control_derivatives() raised %s: %s" % (type(e).__name__, e))
after = used.solve_forces()["plane"]["total"]

fresh = MX.Scene(scene_input())
fresh.add_aircraft("plane", airplane(), state=state, control_state=controls)
want = fresh.solve_forces()["plane"]["total"]

print("recorded control state of the used scene now:", used._airplanes["plane"].current_control_state)
print("%-34s CL = %.8f  Cm = %.8f" % ("before the call", before["CL"], before["Cm"]))
print("%-34s CL = %.8f  Cm = %.8f" % ("after the call (observed)", after["CL"], after["Cm"]))
print("%-34s CL = %.8f  Cm = %.8f" % ("fresh scene, same input (expected)", want["CL"], want["Cm"]))
bad = abs(after["CL"] - want["CL"]) > 1e-8 or abs(after["Cm"] - want["Cm"]) > 1e-8
print("VIOLATION: the failed analysis changed the state behind the caller's back" if bad else "holds")
sys.exit(1 if bad else 0)
