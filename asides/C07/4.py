"""Aside 4 (unmodified tree): a set_aircraft_state() call that is rejected (here: "velocity" forgotten) has already
overwritten position and orientation of the aircraft, but neither refreshes the Earth-frame geometry nor clears the
"solved" flag.  The scene is then in a state no fresh scene can be in: new attitude in the force resolution, old
attitude in the geometry.
Expected: a rejected call leaves the results unchanged (or else they match a fresh scene in the new pose).  Exit 1 if neither."""
import sys, copy, warnings
import numpy as np
import machupX as MX
warnings.simplefilter("ignore")

AIRFOILS = {
    "NACA_0010": {"type": "linear", "aL0": 0.0, "CLa": 6.4336, "CmL0": 0.0, "Cma": 0.0,
                  "CD0": 0.00513, "CD1": 0.0, "CD2": 0.0984, "CL_max": 1.4, "geometry": {"NACA": "0010"}},
    "NACA_2410": {"type": "linear", "aL0": -0.0368, "CLa": 6.1976, "CmL0": -0.0525, "Cma": 0.0326,
                  "CD0": 0.00569, "CD1": -0.0045, "CD2": 0.0104, "CL_max": 1.4, "geometry": {"NACA": "2410"}},
}


def airplane(N=6):
    return {
        "CG": [0.0, 0.0, 0.0], "weight": 50.0,
        "reference": {"area": 8.0, "longitudinal_length": 1.0, "lateral_length": 8.0},
        "controls": {"aileron": {"is_symmetric": False}, "elevator": {"is_symmetric": True}},
        "airfoils": copy.deepcopy(AIRFOILS),
        "wings": {
            "main_wing": {"ID": 1, "side": "both", "is_main": True, "semispan": 4.0, "airfoil": "NACA_2410",
                          "control_surface": {"chord_fraction": 0.1, "control_mixing": {"aileron": 1.0}}, "grid": {"N": N}},
            "h_stab": {"ID": 2, "side": "both", "is_main": False, "connect_to": {"ID": 1, "location": "root", "dx": -3.0},
                       "semispan": 2.0, "airfoil": "NACA_0010",
                       "control_surface": {"chord_fraction": 0.5, "control_mixing": {"elevator": 1.0}}, "grid": {"N": N}},
        },
    }


def scene_input(atmosphere=None):
    return {"solver": {"type": "nonlinear", "convergence": 1e-10}, "units": "English", "scene": {"atmosphere": atmosphere or {}}}

from machupX.helpers import quat_trans
state0 = {"position": [0.0, 0.0, 0.0], "velocity": [100.0, 0.0, 5.0], "orientation": [0.0, 0.0, 0.0]}

used = MX.Scene(scene_input())
used.add_aircraft("plane", airplane(), state=state0)
before = used.solve_forces()["plane"]["total"]
try:
    used.set_aircraft_state(state={"position": [0.0, 0.0, -100.0], "orientation": [0.0, 4.0, 0.0]})   # no "velocity"
except Exception as e:
    print("set_aircraft_state() raised %s: %s" % (type(e).__name__, e))
after = used.solve_forces()["plane"]["total"]

# a fresh scene in the state the aircraft object now reports
ap = used._airplanes["plane"]
fresh = MX.Scene(scene_input())
fresh.add_aircraft("plane", airplane(), state={"position": list(ap.p_bar), "velocity": list(quat_trans(ap.q, ap.v)), "orientation": list(ap.q), "angular_rates": list(ap.w)})
want_new = fresh.solve_forces()["plane"]["total"]

print("%-52s Fx = %.6f  Fz = %.6f" % ("before the rejected call", before["Fx"], before["Fz"]))
print("%-52s Fx = %.6f  Fz = %.6f" % ("after the rejected call (observed)", after["Fx"], after["Fz"]))
print("%-52s Fx = %.6f  Fz = %.6f" % ("fresh scene in the pose the aircraft now reports", want_new["Fx"], want_new["Fz"]))
same_as_before = all(abs(after[k] - before[k]) < 1e-6 for k in ("Fx", "Fz"))
same_as_new = all(abs(after[k] - want_new[k]) < 1e-6 for k in ("Fx", "Fz"))
bad = not (same_as_before or same_as_new)
print("VIOLATION: results belong neither to the old nor to the new state" if bad else "holds")
sys.exit(1 if bad else 0)
