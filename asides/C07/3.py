"""Aside 3 (unmodified tree): Scene.out_gamma() never checks the "solved" flag: after a state change it
writes the circulation (and velocities) of the earlier state to gamma_dist.txt.
Expected: the circulation written equals that of a fresh scene in the current state.  Exit 1 if not."""
import sys, copy, warnings
import numpy as np
import machupX as MX
warnings.simplefilter("ignore")

AIRFOILS = {
    "NACA_0010": {"type": "linear", "aL0": 0.0, "CLa": 6.4336, "CmL0": 0.0, "Cma": 0.0,
                  "CD0": 0.00513, "CD1": 0.0, "CD2": 0.0984, "CL_max": 1.4, "geometry": {"NACA": "0010"}},
    "NACA_2410": {"type": "linear", "aL0": -0.0368, "CLa": 6.1976, "CmL0": -0.0525, "Cma": 0.0326,
                  "CD0": 0.00569, "CD1": -0.0045, "CD2": 0.0104, "CL_max": 1.4, "geometry": {"NACA": "2410"}},
}


def airplane(N=6):
    return {
        "CG": [0.0, 0.0, 0.0], "weight": 50.0,
        "reference": {"area": 8.0, "longitudinal_length": 1.0, "lateral_length": 8.0},
        "controls": {"aileron": {"is_symmetric": False}, "elevator": {"is_symmetric": True}},
        "airfoils": copy.deepcopy(AIRFOILS),
        "wings": {
            "main_wing": {"ID": 1, "side": "both", "is_main": True, "semispan": 4.0, "airfoil": "NACA_2410",
                          "control_surface": {"chord_fraction": 0.1, "control_mixing": {"aileron": 1.0}}, "grid": {"N": N}},
            "h_stab": {"ID": 2, "side": "both", "is_main": False, "connect_to": {"ID": 1, "location": "root", "dx": -3.0},
                       "semispan": 2.0, "airfoil": "NACA_0010",
                       "control_surface": {"chord_fraction": 0.5, "control_mixing": {"elevator": 1.0}}, "grid": {"N": N}},
        },
    }


def scene_input(atmosphere=None):
    return {"solver": {"type": "nonlinear", "convergence": 1e-10}, "units": "English", "scene": {"atmosphere": atmosphere or {}}}

import os, tempfile
import matplotlib
matplotlib.use("Agg")

used = MX.Scene(scene_input())
used.add_aircraft("plane", airplane(), state={"velocity": 100.0, "alpha": 2.0})
used.solve_forces()
used.set_aircraft_state(state={"velocity": 100.0, "alpha": 8.0})

cwd = os.getcwd()
tmp = tempfile.mkdtemp(dir=os.path.join(cwd, "_seed", "asides"))
os.chdir(tmp)
try:
    used.out_gamma()
    rows = [line.split() for line in open("gamma_dist.txt").read().splitlines()]
finally:
    for f in os.listdir(tmp):
        os.remove(os.path.join(tmp, f))
    os.chdir(cwd)
    os.rmdir(tmp)
N = used._N
written = np.array([float(r[2]) for r in rows[:N]])

fresh = MX.Scene(scene_input())
fresh.add_aircraft("plane", airplane(), state={"velocity": 100.0, "alpha": 8.0})
want = np.array([g for seg in fresh.distributions()["plane"].values() for g in seg["circ"]])

print("circulation written by out_gamma() (observed), first 4 :", written[:4])
print("circulation of a fresh scene at alpha = 8 (expected)    :", want[:4])
bad = np.max(np.abs(written - want)) > 1e-6*np.max(np.abs(want))
print("VIOLATION: out_gamma() served the circulation of the earlier angle of attack" if bad else "holds")
sys.exit(1 if bad else 0)
