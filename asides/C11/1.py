"""Aside 1 (unmodified tree, minor): target_CL() refuses a *uniform* wind when it is written as a wind-profile table.

The same physical wind W = [12,-7,3] ft/s is given (a) as a vector and (b) as a two-row profile table with the
same vector at every height (a documented form of "V_wind").  Every other analysis agrees between (a), (b) and the
still-air twin; target_CL() works for (a) but raises IOError for (b), because it tests the representation
(`self._constant_wind` exists) rather than whether the wind is constant.
Expected: the same alpha as for the vector form (and as for the still-air twin).  Observed: IOError.
"""
import json, copy, sys, warnings
import machupX as MX
warnings.simplefilter("ignore")
with open("test/airplane_for_testing.json") as f:
    plane = json.load(f)
for w in plane["wings"].values():
    w["grid"]["N"] = 8
state = {"velocity": 100.0, "alpha": 2.0, "position": [0.0, 0.0, -500.0]}
def scene(wind):
    d = {"units": "English", "scene": {"atmosphere": {}}}
    if wind is not None: d["scene"]["atmosphere"]["V_wind"] = wind
    s = MX.Scene(d); s.add_aircraft("p", copy.deepcopy(plane), state=copy.deepcopy(state)); return s
vec = scene([12.0, -7.0, 3.0])
prof = scene([[0.0, 12.0, -7.0, 3.0], [10000.0, 12.0, -7.0, 3.0]])
calm = scene(None)
print("CL  vector / profile / still air :", vec.solve_forces()["p"]["total"]["CL"], prof.solve_forces()["p"]["total"]["CL"], calm.solve_forces()["p"]["total"]["CL"])
print("target_CL(0.4) vector wind  :", vec.target_CL(CL=0.4))
print("target_CL(0.4) still air    :", calm.target_CL(CL=0.4))
try:
    print("target_CL(0.4) profile wind :", prof.target_CL(CL=0.4))
    sys.exit(0)
except IOError as e:
    print("target_CL(0.4) profile wind : IOError:", e)
    sys.exit(1)
