"""Aside 2 (unmodified tree, minor / input handling): a constant wind vector stored in a .csv file crashes the scene.

"V_wind" is documented as "vector, array, or string" (a path to a csv file).  A csv file holding the constant wind
vector on one row ("12.0,-7.0,3.0") is read by np.genfromtxt as a 1-D array, and import_value() then evaluates
val[-1][0] on a scalar -> IndexError("invalid index to scalar variable.").  A csv file with a profile table works.
Expected: the same scene as "V_wind": [12.0,-7.0,3.0].  Observed: IndexError at Scene construction.
"""
import os, sys
import machupX as MX
here = os.path.dirname(os.path.abspath(__file__))
path = os.path.join(here, "_wind_vector.csv")
with open(path, "w") as f:
    f.write("12.0,-7.0,3.0\n")
try:
    s = MX.Scene({"units": "English", "scene": {"atmosphere": {"V_wind": path}}})
    print("constant wind from csv:", s._get_wind(__import__("numpy").zeros(3)))
    rc = 0
except Exception as e:
    print("Scene construction failed:", repr(e))
    rc = 1
os.remove(path)
sys.exit(rc)
