"""Aside 3 (unmodified tree): CSV-file distributions in which some column is written with integers
(e.g. "0,0.4" / "1,0.4", or heights "0,0.002" / "10000,0.001").  numpy.genfromtxt(dtype=None) then returns
a 1-D structured array; only WingSegment._build_getter_linear_f_of_span() knows how to unpack that.

Expected: the CSV file gives the same results as the same numbers written in-line (the in-line list with
integers works everywhere).
Observed: twist/sweep/chord files work, but quarter_chord_locs, chord_fraction, control deflections,
"rho" profile and "V_wind" profile files raise IndexError/TypeError; a one-row quarter_chord_locs file
(documented: "If only one point is given...") raises IndexError; an all-integer file with a unit row
makes numpy.genfromtxt itself fail.
"""
import sys, os

# ---- shared set-up (same in all aside scripts) ----
import copy
import warnings
import numpy as np
import machupX as MX

warnings.simplefilter("ignore")


def airplane():
    return {
        "CG": [0.0, 0.0, 0.0],
        "weight": 50.0,
        "reference": {},
        "controls": {"aileron": {"is_symmetric": False}, "elevator": {"is_symmetric": True}},
        "airfoils": {
            "A": {"type": "linear", "aL0": -0.03, "CLa": 6.2, "CmL0": -0.05, "Cma": 0.01, "CD0": 0.006, "CD1": -0.004, "CD2": 0.01, "CL_max": 1.4, "geometry": {"NACA": "2410"}},
            "B": {"type": "linear", "aL0": 0.0, "CLa": 6.4, "CmL0": 0.0, "Cma": 0.0, "CD0": 0.005, "CD1": 0.0, "CD2": 0.09, "CL_max": 1.4, "geometry": {"NACA": "0010"}},
        },
        "wings": {
            "main_wing": {
                "ID": 1, "side": "both", "is_main": True, "semispan": 4.0, "chord": 1.0, "airfoil": "A",
                "sweep": 10.0, "dihedral": 5.0, "twist": 1.0,
                "control_surface": {"chord_fraction": 0.2, "root_span": 0.5, "tip_span": 0.9, "control_mixing": {"aileron": 1.0}},
                "grid": {"N": 12},
            },
            "h_stab": {
                "ID": 2, "side": "both", "is_main": False, "connect_to": {"ID": 1, "location": "root", "dx": -3.0},
                "semispan": 1.5, "chord": 0.7, "airfoil": "B",
                "control_surface": {"chord_fraction": 0.4, "control_mixing": {"elevator": 1.0}},
                "grid": {"N": 8},
            },
        },
    }


STATE = {"velocity": 100.0, "alpha": 4.0, "beta": 3.0, "angular_rates": [0.1, 0.05, -0.08]}
CONTROLS = {"aileron": 3.0, "elevator": -2.0}


def run(ap, state=None, controls=None, units="English", atmos=None):
    scene = MX.Scene({"solver": {"type": "nonlinear"}, "units": units, "scene": {"atmosphere": atmos or {}}})
    scene.add_aircraft("p", ap, state=STATE if state is None else state, control_state=CONTROLS if controls is None else controls)
    return scene.solve_forces(stab_frame=True)["p"]["total"]


def show(label, a, b, keys=("CL", "CD", "Cm", "Cl", "Cn", "FL", "FD", "My")):
    print(label)
    worst = 0.0
    for k in keys:
        rel = abs(a[k]-b[k])/max(abs(a[k]), abs(b[k]), 1e-300)
        worst = max(worst, rel)
        print("   {0:<4} {1: .12f}  {2: .12f}   rel diff {3:.2e}".format(k, a[k], b[k], rel))
    return worst


def attempt(label, f):
    try:
        f()
        print("   {0}: ran".format(label))
        return True
    except Exception as e:
        print("   {0}: raises {1}: {2}".format(label, type(e).__name__, str(e)[:160]))
        return False
# ---- end of shared set-up ----
HERE = os.path.dirname(os.path.abspath(__file__))


def csv(name, rows):
    p = os.path.join(HERE, "tmp_"+name)
    with open(p, "w") as f:
        for r in rows: f.write(",".join(str(x) for x in r)+"\n")
    return p

ok = True
print("in-line lists with integers (all fine) vs CSV files with the same text:")

def qc(v):
    ap = airplane(); w = ap["wings"]["main_wing"]
    for k in ("semispan", "sweep", "dihedral"): w.pop(k)
    w["quarter_chord_locs"] = v; return run(ap)
ok &= attempt("quarter_chord_locs in-line [[-0.35,2,0],[-0.7,4,0]]", lambda: qc([[-0.35, 2, 0], [-0.7, 4, 0]]))
ok &= attempt("quarter_chord_locs CSV     -0.35,2,0 / -0.7,4,0    ", lambda: qc(csv("qc.csv", [[-0.35, 2, 0], [-0.7, 4, 0]])))
ok &= attempt("quarter_chord_locs in-line one point [[-0.7,4.0,0.0]]", lambda: qc([[-0.7, 4.0, 0.0]]))
ok &= attempt("quarter_chord_locs CSV one row  -0.7,4.0,0.0         ", lambda: qc(csv("qc1.csv", [[-0.7, 4.0, 0.0]])))

def cf(v):
    ap = airplane(); ap["wings"]["h_stab"]["control_surface"]["chord_fraction"] = v; return run(ap)
ok &= attempt("chord_fraction in-line [[0,0.4],[1,0.4]]", lambda: cf([[0, 0.4], [1, 0.4]]))
ok &= attempt("chord_fraction CSV     0,0.4 / 1,0.4    ", lambda: cf(csv("cf.csv", [[0, 0.4], [1, 0.4]])))

ok &= attempt("elevator deflection in-line [[0,-2.0],[1,-2.0]]", lambda: run(airplane(), controls={"elevator": [[0, -2.0], [1, -2.0]]}))
ok &= attempt("elevator deflection CSV     0,-2.0 / 1,-2.0    ", lambda: run(airplane(), controls={"elevator": csv("el.csv", [[0, -2.0], [1, -2.0]])}))

ok &= attempt("rho profile in-line [[0,0.002],[10000,0.001]]", lambda: run(airplane(), atmos={"rho": [[0, 0.002], [10000, 0.001]]}))
ok &= attempt("rho profile CSV     0,0.002 / 10000,0.001    ", lambda: run(airplane(), atmos={"rho": csv("rho.csv", [[0, 0.002], [10000, 0.001]])}))

ok &= attempt("V_wind profile in-line [[0,10,5.0,0],[10000,20,5.0,1]]", lambda: run(airplane(), atmos={"V_wind": [[0, 10, 5.0, 0], [10000, 20, 5.0, 1]]}))
ok &= attempt("V_wind profile CSV     0,10,5.0,0 / 10000,20,5.0,1    ", lambda: run(airplane(), atmos={"V_wind": csv("w.csv", [[0, 10, 5.0, 0], [10000, 20, 5.0, 1]])}))

def tw(v):
    ap = airplane(); ap["wings"]["main_wing"]["twist"] = v; return run(ap)
ok &= attempt("twist in-line [[0,2],[1,-1],['-','deg']]", lambda: tw([[0, 2], [1, -1], ["-", "deg"]]))
ok &= attempt("twist CSV     0,2 / 1,-1 / -,deg        ", lambda: tw(csv("tw.csv", [[0, 2], [1, -1], ["-", "deg"]])))
ok &= attempt("twist CSV     0,2.0 / 1,-1.0 (handled)  ", lambda: tw(csv("tw2.csv", [[0, 2.0], [1, -1.0]])))

for f in os.listdir(HERE):
    if f.startswith("tmp_"): os.remove(os.path.join(HERE, f))
sys.exit(0 if ok else 1)
