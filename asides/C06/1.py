"""Aside 1 (unmodified tree): "ll_offset" : "kuchemann" with a constant sweep written as a scalar
vs the same constant sweep written as a constant array (or a CSV file / a function).

Expected: identical results (scalar vs constant-array distributions are equivalent descriptions).
Observed: with the array the Kuchemann offset is silently (warning only) dropped, because
WingSegment._initialize_lifting_line() only accepts `isinstance(self._getter_data["sweep"], float)`.
"""
import sys, os

# ---- shared set-up (same in all aside scripts) ----
import copy
import warnings
import numpy as np
import machupX as MX

warnings.simplefilter("ignore")


def airplane():
    return {
        "CG": [0.0, 0.0, 0.0],
        "weight": 50.0,
        "reference": {},
        "controls": {"aileron": {"is_symmetric": False}, "elevator": {"is_symmetric": True}},
        "airfoils": {
            "A": {"type": "linear", "aL0": -0.03, "CLa": 6.2, "CmL0": -0.05, "Cma": 0.01, "CD0": 0.006, "CD1": -0.004, "CD2": 0.01, "CL_max": 1.4, "geometry": {"NACA": "2410"}},
            "B": {"type": "linear", "aL0": 0.0, "CLa": 6.4, "CmL0": 0.0, "Cma": 0.0, "CD0": 0.005, "CD1": 0.0, "CD2": 0.09, "CL_max": 1.4, "geometry": {"NACA": "0010"}},
        },
        "wings": {
            "main_wing": {
                "ID": 1, "side": "both", "is_main": True, "semispan": 4.0, "chord": 1.0, "airfoil": "A",
                "sweep": 10.0, "dihedral": 5.0, "twist": 1.0,
                "control_surface": {"chord_fraction": 0.2, "root_span": 0.5, "tip_span": 0.9, "control_mixing": {"aileron": 1.0}},
                "grid": {"N": 12},
            },
            "h_stab": {
                "ID": 2, "side": "both", "is_main": False, "connect_to": {"ID": 1, "location": "root", "dx": -3.0},
                "semispan": 1.5, "chord": 0.7, "airfoil": "B",
                "control_surface": {"chord_fraction": 0.4, "control_mixing": {"elevator": 1.0}},
                "grid": {"N": 8},
            },
        },
    }


STATE = {"velocity": 100.0, "alpha": 4.0, "beta": 3.0, "angular_rates": [0.1, 0.05, -0.08]}
CONTROLS = {"aileron": 3.0, "elevator": -2.0}


def run(ap, state=None, controls=None, units="English", atmos=None):
    scene = MX.Scene({"solver": {"type": "nonlinear"}, "units": units, "scene": {"atmosphere": atmos or {}}})
    scene.add_aircraft("p", ap, state=STATE if state is None else state, control_state=CONTROLS if controls is None else controls)
    return scene.solve_forces(stab_frame=True)["p"]["total"]


def show(label, a, b, keys=("CL", "CD", "Cm", "Cl", "Cn", "FL", "FD", "My")):
    print(label)
    worst = 0.0
    for k in keys:
        rel = abs(a[k]-b[k])/max(abs(a[k]), abs(b[k]), 1e-300)
        worst = max(worst, rel)
        print("   {0:<4} {1: .12f}  {2: .12f}   rel diff {3:.2e}".format(k, a[k], b[k], rel))
    return worst


def attempt(label, f):
    try:
        f()
        print("   {0}: ran".format(label))
        return True
    except Exception as e:
        print("   {0}: raises {1}: {2}".format(label, type(e).__name__, str(e)[:160]))
        return False
# ---- end of shared set-up ----

a = airplane(); a["wings"]["main_wing"]["ll_offset"] = "kuchemann"                                   # sweep: 10.0
b = airplane(); b["wings"]["main_wing"]["ll_offset"] = "kuchemann"; b["wings"]["main_wing"]["sweep"] = [[0.0, 10.0], [1.0, 10.0]]
c = airplane()                                                                                       # no kuchemann at all
ra, rb, rc = run(a), run(b), run(c)
w = show("kuchemann: scalar sweep 10.0 | constant array [[0,10],[1,10]]", ra, rb)
w2 = show("constant array + kuchemann | no ll_offset at all (these coincide: the offset was dropped)", rb, rc)
print("worst rel diff scalar vs array: {0:.2e} (expected ~1e-13)".format(w))
sys.exit(1 if w > 1e-9 else 0)
