"""Aside 5 (unmodified tree): a polyhedral wing (flat inner half, outer half at 20 deg dihedral), Reid
corrections off, the same 6+6 cosine-clustered control points, described as
  (a) one segment with a step change in "dihedral" (documented way to write a step) and "cluster_points" : [0.5],
  (b) one segment with "quarter_chord_locs" (two points),
  (c) a chain of two straight segments.

Expected (C06: single segment vs chain with the identical grid, Reid off): identical results.
Observed: (a) == (b), but the chain differs by ~3e-3 in CS (1e-4..1e-3 in the other outputs): inside one segment
the section unit vectors are np.gradient/interp1d-smoothed across the kink (the control points next to the kink
get an intermediate dihedral), in the chain they are not.  Control point positions are identical.
"""
import sys, os, math

# ---- shared set-up (same in all aside scripts) ----
import copy
import warnings
import numpy as np
import machupX as MX

warnings.simplefilter("ignore")


def airplane():
    return {
        "CG": [0.0, 0.0, 0.0],
        "weight": 50.0,
        "reference": {},
        "controls": {"aileron": {"is_symmetric": False}, "elevator": {"is_symmetric": True}},
        "airfoils": {
            "A": {"type": "linear", "aL0": -0.03, "CLa": 6.2, "CmL0": -0.05, "Cma": 0.01, "CD0": 0.006, "CD1": -0.004, "CD2": 0.01, "CL_max": 1.4, "geometry": {"NACA": "2410"}},
            "B": {"type": "linear", "aL0": 0.0, "CLa": 6.4, "CmL0": 0.0, "Cma": 0.0, "CD0": 0.005, "CD1": 0.0, "CD2": 0.09, "CL_max": 1.4, "geometry": {"NACA": "0010"}},
        },
        "wings": {
            "main_wing": {
                "ID": 1, "side": "both", "is_main": True, "semispan": 4.0, "chord": 1.0, "airfoil": "A",
                "sweep": 10.0, "dihedral": 5.0, "twist": 1.0,
                "control_surface": {"chord_fraction": 0.2, "root_span": 0.5, "tip_span": 0.9, "control_mixing": {"aileron": 1.0}},
                "grid": {"N": 12},
            },
            "h_stab": {
                "ID": 2, "side": "both", "is_main": False, "connect_to": {"ID": 1, "location": "root", "dx": -3.0},
                "semispan": 1.5, "chord": 0.7, "airfoil": "B",
                "control_surface": {"chord_fraction": 0.4, "control_mixing": {"elevator": 1.0}},
                "grid": {"N": 8},
            },
        },
    }


STATE = {"velocity": 100.0, "alpha": 4.0, "beta": 3.0, "angular_rates": [0.1, 0.05, -0.08]}
CONTROLS = {"aileron": 3.0, "elevator": -2.0}


def run(ap, state=None, controls=None, units="English", atmos=None):
    scene = MX.Scene({"solver": {"type": "nonlinear"}, "units": units, "scene": {"atmosphere": atmos or {}}})
    scene.add_aircraft("p", ap, state=STATE if state is None else state, control_state=CONTROLS if controls is None else controls)
    return scene.solve_forces(stab_frame=True)["p"]["total"]


def show(label, a, b, keys=("CL", "CD", "Cm", "Cl", "Cn", "FL", "FD", "My")):
    print(label)
    worst = 0.0
    for k in keys:
        rel = abs(a[k]-b[k])/max(abs(a[k]), abs(b[k]), 1e-300)
        worst = max(worst, rel)
        print("   {0:<4} {1: .12f}  {2: .12f}   rel diff {3:.2e}".format(k, a[k], b[k], rel))
    return worst


def attempt(label, f):
    try:
        f()
        print("   {0}: ran".format(label))
        return True
    except Exception as e:
        print("   {0}: raises {1}: {2}".format(label, type(e).__name__, str(e)[:160]))
        return False
# ---- end of shared set-up ----

a = airplane(); a["wings"].pop("h_stab"); w = a["wings"]["main_wing"]; w.pop("control_surface")
w.update(sweep=0.0, twist=0.0, dihedral=[[0.0, 0.0], [0.5, 0.0], [0.5, 20.0], [1.0, 20.0]])
w["grid"] = {"N": 12, "reid_corrections": False, "cluster_points": [0.5]}
a["reference"] = {"area": 8.0, "longitudinal_length": 1.0, "lateral_length": 8.0}

b = copy.deepcopy(a); wb = b["wings"]["main_wing"]
for k in ("semispan", "sweep", "dihedral"): wb.pop(k)
c20, s20 = math.cos(math.radians(20.0)), math.sin(math.radians(20.0))
wb["quarter_chord_locs"] = [[0.0, 2.0, 0.0], [0.0, 2.0+2.0*c20, -2.0*s20]]

c = copy.deepcopy(a); wc = c["wings"].pop("main_wing")
inner = copy.deepcopy(wc); inner.update(semispan=2.0, dihedral=0.0); inner["grid"] = {"N": 6, "reid_corrections": False}
outer = copy.deepcopy(wc); outer.update(ID=5, semispan=2.0, dihedral=20.0, connect_to={"ID": 1, "location": "tip"}); outer["grid"] = {"N": 6, "reid_corrections": False}
c["wings"] = {"main_wing": inner, "outer": outer}

ra, rb, rc = run(a, controls={}), run(b, controls={}), run(c, controls={})
keys = ("CL", "CD", "CS", "Cm", "Cl", "Cn", "FL", "FD", "FS")
w_ab = show("(a) step dihedral array | (b) quarter-chord points", ra, rb, keys)
w_ac = show("(a) step dihedral array | (c) chain of two segments", ra, rc, keys)
print("worst rel diff (a)-(b): {0:.1e};  (a)-(c): {1:.1e}  (expected ~1e-13)".format(w_ab, w_ac))
sys.exit(1 if max(w_ab, w_ac) > 1e-9 else 0)
