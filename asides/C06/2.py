"""Aside 2 (unmodified tree): a main wing written as a chain of three segments a <- b <- c.
The order in which the user lists the segments in the "wings" dictionary should not matter
(Airplane._load_wing_segments() re-orders them), but the listing order  c, a, b  cannot be built.

Expected: every listing order gives the results of the single-segment wing (Reid corrections off, same grid).
Observed: order (c, a, b) raises RuntimeError "Could not attach wing segment b_left"; the other orders are fine.
"""
import sys, os, itertools

# ---- shared set-up (same in all aside scripts) ----
import copy
import warnings
import numpy as np
import machupX as MX

warnings.simplefilter("ignore")


def airplane():
    return {
        "CG": [0.0, 0.0, 0.0],
        "weight": 50.0,
        "reference": {},
        "controls": {"aileron": {"is_symmetric": False}, "elevator": {"is_symmetric": True}},
        "airfoils": {
            "A": {"type": "linear", "aL0": -0.03, "CLa": 6.2, "CmL0": -0.05, "Cma": 0.01, "CD0": 0.006, "CD1": -0.004, "CD2": 0.01, "CL_max": 1.4, "geometry": {"NACA": "2410"}},
            "B": {"type": "linear", "aL0": 0.0, "CLa": 6.4, "CmL0": 0.0, "Cma": 0.0, "CD0": 0.005, "CD1": 0.0, "CD2": 0.09, "CL_max": 1.4, "geometry": {"NACA": "0010"}},
        },
        "wings": {
            "main_wing": {
                "ID": 1, "side": "both", "is_main": True, "semispan": 4.0, "chord": 1.0, "airfoil": "A",
                "sweep": 10.0, "dihedral": 5.0, "twist": 1.0,
                "control_surface": {"chord_fraction": 0.2, "root_span": 0.5, "tip_span": 0.9, "control_mixing": {"aileron": 1.0}},
                "grid": {"N": 12},
            },
            "h_stab": {
                "ID": 2, "side": "both", "is_main": False, "connect_to": {"ID": 1, "location": "root", "dx": -3.0},
                "semispan": 1.5, "chord": 0.7, "airfoil": "B",
                "control_surface": {"chord_fraction": 0.4, "control_mixing": {"elevator": 1.0}},
                "grid": {"N": 8},
            },
        },
    }


STATE = {"velocity": 100.0, "alpha": 4.0, "beta": 3.0, "angular_rates": [0.1, 0.05, -0.08]}
CONTROLS = {"aileron": 3.0, "elevator": -2.0}


def run(ap, state=None, controls=None, units="English", atmos=None):
    scene = MX.Scene({"solver": {"type": "nonlinear"}, "units": units, "scene": {"atmosphere": atmos or {}}})
    scene.add_aircraft("p", ap, state=STATE if state is None else state, control_state=CONTROLS if controls is None else controls)
    return scene.solve_forces(stab_frame=True)["p"]["total"]


def show(label, a, b, keys=("CL", "CD", "Cm", "Cl", "Cn", "FL", "FD", "My")):
    print(label)
    worst = 0.0
    for k in keys:
        rel = abs(a[k]-b[k])/max(abs(a[k]), abs(b[k]), 1e-300)
        worst = max(worst, rel)
        print("   {0:<4} {1: .12f}  {2: .12f}   rel diff {3:.2e}".format(k, a[k], b[k], rel))
    return worst


def attempt(label, f):
    try:
        f()
        print("   {0}: ran".format(label))
        return True
    except Exception as e:
        print("   {0}: raises {1}: {2}".format(label, type(e).__name__, str(e)[:160]))
        return False
# ---- end of shared set-up ----


def build(order):
    ap = airplane()
    ap["wings"].pop("h_stab")
    w = ap["wings"].pop("main_wing"); w.pop("control_surface")
    w["grid"] = {"N": 12, "distribution": "linear", "reid_corrections": False}
    ap["reference"] = {"area": 8.0, "longitudinal_length": 1.0, "lateral_length": 8.0}
    single = copy.deepcopy(ap); single["wings"]["main_wing"] = copy.deepcopy(w)
    segs = {}
    for name, ID, parent in (("a", 1, 0), ("b", 5, 1), ("c", 6, 5)):
        s = copy.deepcopy(w); s["ID"] = ID; s["semispan"] = 4.0/3.0; s["grid"]["N"] = 4
        if parent: s["connect_to"] = {"ID": parent, "location": "tip"}
        segs[name] = s
    for name in order: ap["wings"][name] = segs[name]
    return single, ap

single, _ = build("abc")
ref = run(single, controls={})
bad = False
for order in itertools.permutations("abc"):
    _, ap = build(order)
    try:
        r = run(ap, controls={})
        rel = max(abs(r[k]-ref[k])/abs(ref[k]) for k in ("CL", "CD", "Cm", "FL", "My"))
        print("listing order {0}: worst rel diff to the single segment {1:.1e}".format(",".join(order), rel))
        bad = bad or rel > 1e-9
    except Exception as e:
        bad = True
        print("listing order {0}: raises {1}: {2}".format(",".join(order), type(e).__name__, e))
sys.exit(1 if bad else 0)
