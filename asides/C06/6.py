"""Aside 6 (unmodified tree): the unit tables in helpers.convert_units() carry 7-9 significant digits and are
not mutually consistent ("m"->ft 3.28084 but "ft"->m 0.3048: product 1.000000032; "in" 0.083333333; "rad" 57.29578;
"deg/s" 0.01745329; kg/m^3->slug/ft^3 0.0019403203 vs slug/ft^3->kg/m^3 515.378819: product 0.99999998).

Expected (C06): an annotated value == the pre-converted value; SI results == English results times the conversion.
Observed: differences of 1e-8..1e-6, i.e. far above round-off (1e-13) - largest where a position is annotated:
a second aircraft placed with "position" in metres in an English scene.
"""
import sys, os, math

# ---- shared set-up (same in all aside scripts) ----
import copy
import warnings
import numpy as np
import machupX as MX

warnings.simplefilter("ignore")


def airplane():
    return {
        "CG": [0.0, 0.0, 0.0],
        "weight": 50.0,
        "reference": {},
        "controls": {"aileron": {"is_symmetric": False}, "elevator": {"is_symmetric": True}},
        "airfoils": {
            "A": {"type": "linear", "aL0": -0.03, "CLa": 6.2, "CmL0": -0.05, "Cma": 0.01, "CD0": 0.006, "CD1": -0.004, "CD2": 0.01, "CL_max": 1.4, "geometry": {"NACA": "2410"}},
            "B": {"type": "linear", "aL0": 0.0, "CLa": 6.4, "CmL0": 0.0, "Cma": 0.0, "CD0": 0.005, "CD1": 0.0, "CD2": 0.09, "CL_max": 1.4, "geometry": {"NACA": "0010"}},
        },
        "wings": {
            "main_wing": {
                "ID": 1, "side": "both", "is_main": True, "semispan": 4.0, "chord": 1.0, "airfoil": "A",
                "sweep": 10.0, "dihedral": 5.0, "twist": 1.0,
                "control_surface": {"chord_fraction": 0.2, "root_span": 0.5, "tip_span": 0.9, "control_mixing": {"aileron": 1.0}},
                "grid": {"N": 12},
            },
            "h_stab": {
                "ID": 2, "side": "both", "is_main": False, "connect_to": {"ID": 1, "location": "root", "dx": -3.0},
                "semispan": 1.5, "chord": 0.7, "airfoil": "B",
                "control_surface": {"chord_fraction": 0.4, "control_mixing": {"elevator": 1.0}},
                "grid": {"N": 8},
            },
        },
    }


STATE = {"velocity": 100.0, "alpha": 4.0, "beta": 3.0, "angular_rates": [0.1, 0.05, -0.08]}
CONTROLS = {"aileron": 3.0, "elevator": -2.0}


def run(ap, state=None, controls=None, units="English", atmos=None):
    scene = MX.Scene({"solver": {"type": "nonlinear"}, "units": units, "scene": {"atmosphere": atmos or {}}})
    scene.add_aircraft("p", ap, state=STATE if state is None else state, control_state=CONTROLS if controls is None else controls)
    return scene.solve_forces(stab_frame=True)["p"]["total"]


def show(label, a, b, keys=("CL", "CD", "Cm", "Cl", "Cn", "FL", "FD", "My")):
    print(label)
    worst = 0.0
    for k in keys:
        rel = abs(a[k]-b[k])/max(abs(a[k]), abs(b[k]), 1e-300)
        worst = max(worst, rel)
        print("   {0:<4} {1: .12f}  {2: .12f}   rel diff {3:.2e}".format(k, a[k], b[k], rel))
    return worst


def attempt(label, f):
    try:
        f()
        print("   {0}: ran".format(label))
        return True
    except Exception as e:
        print("   {0}: raises {1}: {2}".format(label, type(e).__name__, str(e)[:160]))
        return False
# ---- end of shared set-up ----

worst = 0.0
# 1. two aircraft, the position of the second one in ft vs in m
def two(pos):
    scene = MX.Scene({"solver": {"type": "nonlinear"}, "units": "English", "scene": {}})
    scene.add_aircraft("lead", airplane(), state=dict(STATE, position=[0.0, 0.0, -1000.0]), control_state=CONTROLS)
    scene.add_aircraft("wing", airplane(), state={"velocity": 90.0, "alpha": 2.0, "beta": -1.0, "orientation": [0.0, 3.0, 15.0], "position": pos}, control_state=CONTROLS)
    return scene.solve_forces()
A = two([-12.0, 9.0, -998.0])
B = two([-12.0*0.3048, 9.0*0.3048, -998.0*0.3048, "m"])
for n in ("lead", "wing"):
    worst = max(worst, show("aircraft '{0}': second aircraft positioned in ft | the same position in m".format(n), A[n]["total"], B[n]["total"], ("CL", "CD", "Cm", "Cl", "Cn", "FL", "Mx", "Mz")))

# 2. angles / rates annotated
a = run(airplane())
b = run(airplane(), state={"velocity": [30.48, "m/s"], "alpha": [math.radians(4.0), "rad"], "beta": [math.radians(3.0), "rad"],
                           "angular_rates": [math.degrees(0.1), math.degrees(0.05), math.degrees(-0.08), "deg/s"]},
        controls={"aileron": [math.radians(3.0), "rad"], "elevator": [math.radians(-2.0), "rad"]})
worst = max(worst, show("state in ft/s, deg, rad/s | the same state in m/s, rad, deg/s", a, b, ("CL", "CD", "Cm", "Cl", "Cn", "FL", "Mx", "Mz")))

# 3. default atmosphere, SI vs English
ft, lbf = 0.3048, 4.4482216
def si_airplane():
    ap = airplane(); ap["weight"] *= lbf
    for w in ap["wings"].values():
        w["semispan"] *= ft; w["chord"] *= ft
        if "dx" in w.get("connect_to", {}): w["connect_to"]["dx"] *= ft
    return ap
e = run(airplane())
s = run(si_airplane(), state=dict(STATE, velocity=100.0*ft), units="SI")
conv = {k: (v if k.startswith("C") else v*lbf if k.startswith("F") else v*lbf*ft) for k, v in e.items()}
worst = max(worst, show("English scene converted to SI | SI scene (default sea-level atmosphere)", conv, s, ("CL", "Cm", "FL", "FD", "My")))
print("worst rel diff: {0:.1e} (round-off level would be ~1e-13)".format(worst))
sys.exit(1 if worst > 1e-9 else 0)
