"""Aside 4 (unmodified tree): the unit row of a CSV file written exactly as in docs/source/units.md,

    # File: density_profile.csv
    0.0, 1.225
    2000.0, 1.0066
    4000.0, 0.81935
    "m", "kg/m^3"

Expected: same density profile as the in-line array with the row ["m", "kg/m^3"].
Observed: IOError 'Improper units specified; "m" is not an allowable unit definition' - the quotes are kept.
(Related: in an in-line array " in " is accepted because convert_units() strips blanks, but " -" is not,
because the test for the placeholder "-" comes before the strip.)
"""
import sys, os

# ---- shared set-up (same in all aside scripts) ----
import copy
import warnings
import numpy as np
import machupX as MX

warnings.simplefilter("ignore")


def airplane():
    return {
        "CG": [0.0, 0.0, 0.0],
        "weight": 50.0,
        "reference": {},
        "controls": {"aileron": {"is_symmetric": False}, "elevator": {"is_symmetric": True}},
        "airfoils": {
            "A": {"type": "linear", "aL0": -0.03, "CLa": 6.2, "CmL0": -0.05, "Cma": 0.01, "CD0": 0.006, "CD1": -0.004, "CD2": 0.01, "CL_max": 1.4, "geometry": {"NACA": "2410"}},
            "B": {"type": "linear", "aL0": 0.0, "CLa": 6.4, "CmL0": 0.0, "Cma": 0.0, "CD0": 0.005, "CD1": 0.0, "CD2": 0.09, "CL_max": 1.4, "geometry": {"NACA": "0010"}},
        },
        "wings": {
            "main_wing": {
                "ID": 1, "side": "both", "is_main": True, "semispan": 4.0, "chord": 1.0, "airfoil": "A",
                "sweep": 10.0, "dihedral": 5.0, "twist": 1.0,
                "control_surface": {"chord_fraction": 0.2, "root_span": 0.5, "tip_span": 0.9, "control_mixing": {"aileron": 1.0}},
                "grid": {"N": 12},
            },
            "h_stab": {
                "ID": 2, "side": "both", "is_main": False, "connect_to": {"ID": 1, "location": "root", "dx": -3.0},
                "semispan": 1.5, "chord": 0.7, "airfoil": "B",
                "control_surface": {"chord_fraction": 0.4, "control_mixing": {"elevator": 1.0}},
                "grid": {"N": 8},
            },
        },
    }


STATE = {"velocity": 100.0, "alpha": 4.0, "beta": 3.0, "angular_rates": [0.1, 0.05, -0.08]}
CONTROLS = {"aileron": 3.0, "elevator": -2.0}


def run(ap, state=None, controls=None, units="English", atmos=None):
    scene = MX.Scene({"solver": {"type": "nonlinear"}, "units": units, "scene": {"atmosphere": atmos or {}}})
    scene.add_aircraft("p", ap, state=STATE if state is None else state, control_state=CONTROLS if controls is None else controls)
    return scene.solve_forces(stab_frame=True)["p"]["total"]


def show(label, a, b, keys=("CL", "CD", "Cm", "Cl", "Cn", "FL", "FD", "My")):
    print(label)
    worst = 0.0
    for k in keys:
        rel = abs(a[k]-b[k])/max(abs(a[k]), abs(b[k]), 1e-300)
        worst = max(worst, rel)
        print("   {0:<4} {1: .12f}  {2: .12f}   rel diff {3:.2e}".format(k, a[k], b[k], rel))
    return worst


def attempt(label, f):
    try:
        f()
        print("   {0}: ran".format(label))
        return True
    except Exception as e:
        print("   {0}: raises {1}: {2}".format(label, type(e).__name__, str(e)[:160]))
        return False
# ---- end of shared set-up ----
HERE = os.path.dirname(os.path.abspath(__file__))
p = os.path.join(HERE, "tmp_density_profile.csv")
with open(p, "w") as f:
    f.write('0.0, 1.225\n2000.0, 1.0066\n4000.0, 0.81935\n"m", "kg/m^3"\n')
state = dict(STATE, position=[0.0, 0.0, -3000.0])
ref = run(airplane(), state=state, atmos={"rho": [[0.0, 1.225], [2000.0, 1.0066], [4000.0, 0.81935], ["m", "kg/m^3"]]})
print("in-line array with unit row: FL = {0:.9f}".format(ref["FL"]))
ok = attempt("the documented CSV file", lambda: print("   FL = {0:.9f}".format(run(airplane(), state=state, atmos={"rho": p})["FL"])))
with open(p, "w") as f:
    f.write('0.0, 1.225\n2000.0, 1.0066\n4000.0, 0.81935\nm, kg/m^3\n')
attempt("same file without the quotes", lambda: print("   FL = {0:.9f}".format(run(airplane(), state=state, atmos={"rho": p})["FL"])))
from machupX.helpers import import_value
attempt('in-line unit row [" -", " in "]', lambda: import_value("k", {"k": [[0.0, 12.0], [1.0, 12.0], [" -", " in "]]}, "English", 0.0))
attempt('in-line unit row ["-", " in "] ', lambda: import_value("k", {"k": [[0.0, 12.0], [1.0, 12.0], ["-", " in "]]}, "English", 0.0))
os.remove(p)
sys.exit(0 if ok else 1)
