"""Aside 9 (minor): unit factors are truncated to 7-9 digits, so a length with a unit is not the
described length: semispan [48,"in"] -> 3.999999984 ft (expected 4), [1,"m"] -> 3.28084 (3.280839895)."""
import sys, os; sys.path.insert(0, os.path.dirname(__file__))
from common import *
sc = scene_for({"w": {"ID": 1, "is_main": True, "semispan": [48, "in"]}})
b = sc._airplanes["plane"].wing_segments["w_right"].b
print("semispan [48,'in'] ->", repr(b), " expected 4.0; tip y =", repr(sc._airplanes["plane"].wing_segments["w_right"].get_tip_loc()[1]))
sys.exit(1 if abs(b-4.0) > 1e-12 else 0)
