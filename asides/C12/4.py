"""Aside 4: a segment with a single horseshoe vortex (grid N = 1, a legal "number of horseshoe
vortices") cannot be built; N = 2 works.
Expected: nodes at span 0 and 1, one control point between. Observed: ValueError from np.gradient."""
import sys, os; sys.path.insert(0, os.path.dirname(__file__))
from common import *
bad = 0
for dist in ("cosine_cluster", "linear"):
    try:
        sc = scene_for({"w": {"ID": 1, "is_main": True, "semispan": 4.0, "grid": {"N": 1, "distribution": dist}}})
        print(dist, "N=1 built:", sc.distributions()["plane"]["w_right"]["span_frac"])
    except Exception as e:
        bad += 1
        print(dist, "N=1 : observed", type(e).__name__, "-", e)
sys.exit(1 if bad else 0)
