"""Aside 6: for a wing given by quarter_chord_locs, sweep and dihedral come from a finite difference
over +-0.005 span, so sections closer than that to a corner get a blend of the two sides. With
clustering about the corner (recommended for a sharp change in geometry) several control points are
affected. The equivalent step description gives the sharp values; the control points are identical.
Expected near the winglet corner: 0 / -90 deg dihedral. Observed: -4, -39, -66 deg."""
import sys, os; sys.path.insert(0, os.path.dirname(__file__))
from common import *
warnings.simplefilter("ignore")
g = {"N": 40, "cluster_points": [0.8]}
L = float(np.degrees(np.arctan(0.5)))
pts = scene_for({"w": {"ID": 1, "is_main": True, "quarter_chord_locs": [[0.0, 4.0, 0.0], [-0.5, 4.0, -1.0]], "grid": g}})
std = scene_for({"w": {"ID": 1, "is_main": True, "semispan": 5.0,
                       "dihedral": [[0, 0], [0.8, 0], [0.8, 90], [1, 90]],
                       "sweep": [[0, 0], [0.8, 0], [0.8, L], [1.0, L]], "grid": g}})
dp = pts.distributions()["plane"]["w_right"]; ds = std.distributions()["plane"]["w_right"]
s = np.array(dp["span_frac"]); near = np.abs(s-0.8) < 0.006
print("control point difference:", max(np.max(np.abs(np.array(dp[k])-np.array(ds[k]))) for k in ("cpx", "cpy", "cpz")))
print("span fractions near the corner :", np.round(s[near], 4))
print("dihedral from points [deg]     :", np.round(np.degrees(dp["dihedral"])[near], 2), " from steps:", np.round(np.degrees(ds["dihedral"])[near], 2))
print("sweep from points [deg]        :", np.round(np.degrees(dp["sweep"])[near], 2), " from steps:", np.round(np.degrees(ds["sweep"])[near], 2))
err = np.max(np.abs(np.array(dp["dihedral"])-np.array(ds["dihedral"])))
print("max dihedral difference [deg]:", round(float(np.degrees(err)), 2), "(away from the corner: ", np.max(np.abs(np.array(dp["dihedral"])-np.array(ds["dihedral"]))[~near]), ")")
sys.exit(1 if err > 1e-6 else 0)
