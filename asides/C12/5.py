"""Aside 5: dihedral derived from quarter_chord_locs uses arctan(dz/dy) and so only covers segments
that run strictly outboard.
 (a) a LEFT vertical fin given by points reports dihedral -90 deg (the value of a right fin) instead
     of +90 deg; its twist is then applied in the opposite sense and the side force changes sign
     compared with the equivalent semispan/dihedral description (a right fin agrees).
 (b) a piece that runs inboard (C-wing) reports dihedral 0 instead of -180 deg."""
import sys, os; sys.path.insert(0, os.path.dirname(__file__))
from common import *
warnings.simplefilter("ignore")
main = {"ID": 1, "is_main": True, "semispan": 4.0, "grid": {"N": 10}}
bad = 0
for side in ("right", "left"):
    common_ = {"ID": 2, "side": side, "twist": 5.0, "connect_to": {"dx": -3.0}, "grid": {"N": 6}}
    pts = scene_for({"w": main, "v": dict(common_, quarter_chord_locs=[[0.0, 0.0, -2.0]])})
    std = scene_for({"w": main, "v": dict(common_, semispan=2.0, dihedral=90.0)})
    dp = pts.distributions()["plane"]["v_"+side]
    ds = std.distributions()["plane"]["v_"+side]
    Fp = pts.solve_forces(verbose=False)["plane"]["total"]["Fy"]
    Fs = std.solve_forces(verbose=False)["plane"]["total"]["Fy"]
    same_cp = max(np.max(np.abs(np.array(dp[k])-np.array(ds[k]))) for k in ("cpx", "cpy", "cpz"))
    ok = abs(dp["dihedral"][0]-ds["dihedral"][0]) < 1e-9 and abs(Fp-Fs) < 1e-9
    print("(a) {0} fin: control points differ by {1:.1e}; dihedral from points {2:.1f} deg, from angle {3:.1f} deg; Fy {4:.4f} vs {5:.4f}  {6}".format(
        side, same_cp, np.degrees(dp["dihedral"][0]), np.degrees(ds["dihedral"][0]), Fp, Fs, "ok" if ok else "DIFFERENT"))
    bad += 0 if ok else 1
g = {"N": 12, "cluster_points": [4/6, 5/6]}
pts = scene_for({"w": {"ID": 1, "is_main": True, "quarter_chord_locs": [[0, 4, 0], [0, 4, -1], [0, 3, -1]], "grid": g}})
std = scene_for({"w": {"ID": 1, "is_main": True, "semispan": 6.0,
                       "dihedral": [[0, 0], [4/6, 0], [4/6, 90], [5/6, 90], [5/6, 180], [1, 180]], "grid": g}})
dp = pts.distributions()["plane"]["w_right"]; ds = std.distributions()["plane"]["w_right"]
print("(b) C-wing, last section: dihedral from points {0:.1f} deg, from angle {1:.1f} deg".format(np.degrees(dp["dihedral"][-1]), np.degrees(ds["dihedral"][-1])))
bad += 0 if abs(abs(dp["dihedral"][-1])-np.pi) < 1e-6 else 1
sys.exit(1 if bad else 0)
