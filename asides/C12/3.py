"""Aside 3: lengths in connect_to (dx, dy, dz, y_offset) do not accept the documented unit
annotation [value, "unit"] (docs/units.md: every position/displacement/length may carry a unit).
Expected: dx=[1,"m"] -> root at x = 3.28084 ft. Observed: ValueError / UFuncTypeError."""
import sys, os; sys.path.insert(0, os.path.dirname(__file__))
from common import *
bad = 0
for key in ("dx", "dy", "dz", "y_offset"):
    try:
        sc = scene_for({"w": {"ID": 1, "is_main": True, "semispan": 4.0, "connect_to": {key: [1.0, "m"]}}})
        print(key, "accepted; root at", sc._airplanes["plane"].wing_segments["w_right"].get_root_loc())
    except Exception as e:
        bad += 1
        print(key, "= [1.0, 'm'] : observed", type(e).__name__, "-", str(e)[:90])
sys.exit(1 if bad else 0)
