"""Round-10 aside (C12): a valid chain of segments is rejected depending on the order of the "wings" dictionary
(grandchild, parent, child): RuntimeError 'Could not attach wing segment mid_left. Check ID of parent is valid.'"""
import sys
import machupX as MX
AF={"NACA_0010":{"type":"linear","aL0":0.0,"CLa":6.4336,"CmL0":0.0,"Cma":0.0,"CD0":0.005,"CD1":0.0,"CD2":0.1,"CL_max":1.4,"geometry":{"NACA":"0010"}}}
def seg(ID,parent=None):
    d={"ID":ID,"side":"both","is_main":True,"semispan":1.0,"airfoil":"NACA_0010","grid":{"N":4}}
    if parent: d["connect_to"]={"ID":parent,"location":"tip"}
    return d
def build(wings):
    return MX.Scene({"solver":{"type":"linear"},"units":"English","scene":{"atmosphere":{},"aircraft":{"plane":{"file":{"CG":[0,0,0],"weight":50.0,"airfoils":AF,"wings":wings},"state":{"velocity":100.0,"alpha":2.0}}}}})
build({"inner":seg(1),"mid":seg(2,1),"outer":seg(3,2)})
print("parent, child, grandchild: builds")
try:
    build({"outer":seg(3,2),"inner":seg(1),"mid":seg(2,1)})
    print("grandchild, parent, child: builds"); sys.exit(0)
except RuntimeError as e:
    print("grandchild, parent, child:", e); sys.exit(1)
