"""Aside 7: default reference lengths when the main wing is described by two one-sided segments
(left 3 ft + right 4 ft, chord 1: span 7, area 7, mean chord 1).
Expected: lateral length 7, longitudinal length 1. Observed: 14 and 0.5 (every one-sided main
segment is counted as if it were mirrored)."""
import sys, os; sys.path.insert(0, os.path.dirname(__file__))
from common import *
sc = scene_for({"r": {"ID": 1, "side": "right", "is_main": True, "semispan": 4.0},
                "l": {"ID": 2, "side": "left", "is_main": True, "semispan": 3.0}})
S, lon, lat = sc.get_aircraft_reference_geometry()
print("area {0} (expected 7.0), longitudinal {1} (expected 1.0), lateral {2} (expected 7.0)".format(S, lon, lat))
sys.exit(0 if abs(lat-7.0) < 1e-9 and abs(lon-1.0) < 1e-9 else 1)
