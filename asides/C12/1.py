"""Aside 1: a segment placed relative to the aircraft origin with the documented option
connect_to = {"ID": 0, "location": "root"} cannot be built.
Expected: root of the wing at the origin + (dx,dy,dz). Observed: AttributeError."""
import sys, os; sys.path.insert(0, os.path.dirname(__file__))
from common import *
try:
    sc = scene_for({"w": {"ID": 1, "is_main": True, "semispan": 4.0,
                          "connect_to": {"ID": 0, "location": "root", "dx": 1.0}}})
    d = sc.distributions()["plane"]["w_right"]
    print("built; first control point x =", d["cpx"][0], "(expected 1.0)")
    sys.exit(0 if abs(d["cpx"][0]-1.0) < 1e-12 else 1)
except Exception as e:
    print("observed:", type(e).__name__, e)
    print("expected: wing root at [1, 0, 0]")
    sys.exit(1)
