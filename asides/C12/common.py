# shared helper for the aside scripts (unmodified tree)
import warnings
import numpy as np
import machupX as MX

AIRFOILS = {"af": {"type": "linear", "aL0": 0.0, "CLa": 6.28, "CmL0": 0.0, "Cma": 0.0,
                   "CD0": 0.01, "CD1": 0.0, "CD2": 0.0, "geometry": {"NACA": "0010"}}}

def scene_for(wings, reference=None, state=None):
    airplane = {"CG": [0.0, 0.0, 0.0], "weight": 10.0, "airfoils": AIRFOILS, "wings": wings}
    if reference is not None:
        airplane["reference"] = reference
    scene = MX.Scene({"solver": {"type": "linear"}, "units": "English", "scene": {"atmosphere": {}}})
    scene.add_aircraft("plane", airplane, state=state or {"velocity": 100.0, "alpha": 2.0})
    return scene
