"""Aside 2: the order in which the segments of a chain appear in the "wings" dict decides whether
the aeroplane can be built. Chain A(1) <- B(2, tip of 1) <- C(3, tip of 2).
Expected: same geometry for every order. Observed: order C, A, B raises RuntimeError."""
import sys, os, itertools; sys.path.insert(0, os.path.dirname(__file__))
from common import *
segs = {"A": {"ID": 1, "is_main": True, "semispan": 4.0, "grid": {"N": 4}},
        "B": {"ID": 2, "semispan": 2.0, "connect_to": {"ID": 1, "location": "tip"}, "grid": {"N": 4}},
        "C": {"ID": 3, "semispan": 1.0, "connect_to": {"ID": 2, "location": "tip"}, "grid": {"N": 4}}}
bad = 0
for order in itertools.permutations("ABC"):
    try:
        sc = scene_for({k: segs[k] for k in order})
        y_tip = max(sc.distributions()["plane"]["C_right"]["cpy"])
        print("order", "".join(order), ": built, outermost control point of C at y =", round(y_tip, 4))
    except Exception as e:
        bad += 1
        print("order", "".join(order), ": observed", type(e).__name__, "-", e)
sys.exit(1 if bad else 0)
