"""Aside 8: distributions() "cpx/cpy/cpz" are Earth-fixed, not body-fixed: for an aircraft that has a
position or an orientation they are not the described lifting line (which is body-fixed, like every
input). Documented only as "control point x location".
Expected (body-fixed): cpx = -tan(sweep)*s*b. Observed: position + rotated vector."""
import sys, os; sys.path.insert(0, os.path.dirname(__file__))
from common import *
b, sw = 4.0, 20.0
sc = scene_for({"w": {"ID": 1, "is_main": True, "semispan": b, "sweep": sw, "grid": {"N": 5}}},
               state={"velocity": 100.0, "alpha": 2.0, "position": [100.0, 0.0, -1000.0], "orientation": [0.0, 10.0, 0.0]})
d = sc.distributions()["plane"]["w_right"]
s = np.array(d["span_frac"])
print("reported cpx:", np.round(d["cpx"], 4)); print("described  x:", np.round(-np.tan(np.radians(sw))*s*b, 4))
print("reported cpz:", np.round(d["cpz"], 4)); print("described  z:", np.zeros(5))
sys.exit(1 if np.max(np.abs(np.array(d["cpx"])+np.tan(np.radians(sw))*s*b)) > 1e-9 else 0)
