"""Aside 5 (unmodified tree): the command-line runner does not skip every unknown run command, and cannot run
every Scene function although the documentation says "the available run commands are the names of Scene functions".

  * every command is called as  getattr(scene, key)(filename=..., **params);  Scene functions with an explicit
    signature (set_aircraft_state, set_aircraft_control_state, remove_aircraft, ...) raise
    TypeError(unexpected keyword argument 'filename') and the whole run aborts - later commands are never executed;
  * a run key that is not a Scene function but happens to be the name of an attribute (e.g. "_N", "_solved")
    is not "skipped" either: getattr succeeds and the call raises TypeError;
  * only AttributeError is caught, so an AttributeError raised INSIDE a valid analysis would be reported as
    "not recognized as a valid run command" (not demonstrated here).
Expected: unknown commands are skipped, documented Scene functions run, and the remaining commands are executed."""
import os, sys, json, io, shutil, tempfile, contextlib, warnings
warnings.filterwarnings("ignore")
from machupX.__main__ import _run_prescribed_analyses

here = os.path.dirname(os.path.abspath(__file__))
work = tempfile.mkdtemp(prefix="work_", dir=here)
status = 0
try:
    ap = {"CG":[0,0,0],"weight":10.0,"wings":{"w":{"ID":1,"side":"both","is_main":True,"semispan":3.0,"chord":1.0,"grid":{"N":6}}}}
    apf = os.path.join(work, "plane.json"); json.dump(ap, open(apf, "w"))
    for first_command, params in (("not_a_command", {}),
                                  ("set_aircraft_state", {"state":{"velocity":80.0,"alpha":5.0}}),
                                  ("_N", {})):
        inp = {"run":{first_command:params, "solve_forces":{}},
               "solver":{"type":"linear"},
               "scene":{"aircraft":{"p":{"file":apf,"state":{"velocity":50.0,"alpha":2.0}}}}}
        fn = os.path.join(work, "case.json"); json.dump(inp, open(fn, "w"))
        out = os.path.join(work, "case_solve_forces.json")
        if os.path.exists(out): os.remove(out)
        try:
            with contextlib.redirect_stdout(io.StringIO()):
                _run_prescribed_analyses(fn)
            res = "run completed"
        except Exception as e:
            res = "run ABORTED with {0!r}".format(e)
        ok = os.path.exists(out)
        if not ok: status = 1
        print("run = [{0!r}, 'solve_forces']: {1}; case_solve_forces.json written: {2} (expected True)".format(first_command, res, ok))
finally:
    shutil.rmtree(work, ignore_errors=True)
sys.exit(status)
