"""Aside 1 (unmodified tree): distributions(filename=...) stores the aircraft and segment names in fixed-width
'U18' fields, so user-chosen names longer than 18 characters are silently truncated in the CSV.  Segment names
carry the suffix _left/_right at the END, so for a wing whose name has more than ~12 characters the left and the
right half get the SAME name in the file and rows can no longer be attributed; a comma in a name shifts the columns.
Expected: the CSV names are exactly the keys of the dictionary returned by the same call."""
import os, sys, shutil, tempfile, warnings
warnings.filterwarnings("ignore")
import machupX as mx

here = os.path.dirname(os.path.abspath(__file__))
work = tempfile.mkdtemp(prefix="work_", dir=here)
status = 0
try:
    ap = {"CG":[0,0,0],"weight":10.0,
          "wings":{"main_wing_outboard_panel":{"ID":1,"side":"both","is_main":True,"semispan":3.0,"chord":1.0,"grid":{"N":4}},
                   "tail":{"ID":2,"side":"both","is_main":False,"connect_to":{"ID":1,"location":"root","dx":-3.0},"semispan":1.0,"chord":0.5,"grid":{"N":3}}}}
    s = mx.Scene({"solver":{"type":"linear"},"scene":{}})
    name = "research_glider_configuration_7"
    s.add_aircraft(name, ap, state={"velocity":50.0,"alpha":2.0})
    f = os.path.join(work, "dist.csv")
    dist = s.distributions(filename=f)
    rows = [r.split(",") for r in open(f).read().splitlines()[1:]]
    api_pairs = sorted({(name, seg) for seg in dist[name]})
    csv_pairs = sorted({(r[0].strip(), r[1].strip()) for r in rows})
    print("API  (aircraft, segment) keys:"); [print("    ", p) for p in api_pairs]
    print("CSV  (aircraft, segment) labels:"); [print("    ", p) for p in csv_pairs]
    if api_pairs != csv_pairs:
        print("VIOLATED - names in the file differ from the API keys ({0} distinct labels for {1} segments)".format(len(csv_pairs), len(api_pairs)))
        status = 1
    else:
        print("HOLDS")
finally:
    shutil.rmtree(work, ignore_errors=True)
sys.exit(status)
