"""Aside 2 (unmodified tree): the scene keeps the caller's NumPy state arrays by reference.

Airplane.set_state does  self.p_bar = np.asarray(position, dtype=float)  and  self.w = np.asarray(rates, dtype=float);
for a float ndarray np.asarray returns the caller's own array.  Consequences:
  (a) two scenes given the same state dictionary share one position / rates array;
  (b) a caller that re-uses its array for the next point of a sweep (edits it in place, then calls
      set_aircraft_state with the same dictionary) gets STALE results: Scene.set_aircraft_state compares
      "old position" with "new position", but both are the caller's array, so the geometry/atmosphere update is skipped;
  (c) editing the rates array changes the scene's angular rates without any call at all.
Expected: the scene copies what it is given; results depend only on the values passed in the call."""
import sys, warnings
warnings.filterwarnings("ignore")
import numpy as np
import machupX as mx

ap = {"CG":[0,0,0],"weight":10.0,"wings":{"w":{"ID":1,"side":"both","is_main":True,"semispan":3.0,"chord":1.0,"grid":{"N":8}}}}
sd = {"solver":{"type":"linear"},"units":"English","scene":{"atmosphere":{"rho":"standard"}}}

def lift(scene): return scene.solve_forces()["p"]["total"]["FL"]

# reference: fresh scenes, states given as lists
ref = {}
for alt in (0.0, 30000.0):
    s = mx.Scene(sd); s.add_aircraft("p", ap, state={"position":[0.0,0.0,-alt],"velocity":100.0,"alpha":3.0})
    ref[alt] = lift(s)

pos = np.array([0.0, 0.0, 0.0])
rates = np.array([0.0, 0.0, 0.0])
state = {"position":pos, "velocity":100.0, "alpha":3.0, "angular_rates":rates}
A = mx.Scene(sd); A.add_aircraft("p", ap, state=state)
B = mx.Scene(sd); B.add_aircraft("p", ap, state=state)
print("(a) scenes A and B share the position array:", A._airplanes["p"].p_bar is B._airplanes["p"].p_bar,
      "| it is the caller's array:", A._airplanes["p"].p_bar is pos)
L0 = lift(A)
pos[2] = -30000.0                      # next altitude of the sweep, same array, same dictionary
A.set_aircraft_state(state)
L1 = lift(A)
print("(b) lift at sea level            : observed {0:.6f}  expected {1:.6f}".format(L0, ref[0.0]))
print("    lift after moving to 30000 ft: observed {0:.6f}  expected {1:.6f}".format(L1, ref[30000.0]))
rates[0] = 0.5                          # caller edits its own array, no MachUpX call
print("(c) scene B's body rates after the caller edited its array (no call made):", B._airplanes["p"].w, " expected [0. 0. 0.]")
bad = abs(L1-ref[30000.0]) > 1e-6*abs(ref[30000.0]) or B._airplanes["p"].w[0] != 0.0
print("VIOLATED" if bad else "HOLDS")
sys.exit(1 if bad else 0)
