"""Aside 6 (unmodified tree): with a control deflected by a spanwise DISTRIBUTION (documented: "<CONTROL_NAME>" : float
or array), the file side of several calls fails or differs although the API call itself succeeds:

  * pitch_trim_using_orientation(filename=...) computes the trim and then raises TypeError while writing the file
    (the control state it dumps contains the ndarray of the distributed control); without filename= it returns normally;
  * the returned control state cannot be written with json either, i.e. "file == API result" cannot hold.
Expected: the JSON file contains the returned (state, controls), with the distribution as nested lists."""
import os, sys, json, shutil, tempfile, warnings
warnings.filterwarnings("ignore")
import machupX as mx

here = os.path.dirname(os.path.abspath(__file__))
work = tempfile.mkdtemp(prefix="work_", dir=here)
status = 0
try:
    ap = {"CG":[0,0,0],"weight":10.0,
          "controls":{"elevator":{"is_symmetric":True},"flap":{"is_symmetric":True}},
          "wings":{"w":{"ID":1,"side":"both","is_main":True,"semispan":3.0,"chord":1.0,"grid":{"N":8},
                        "control_surface":{"root_span":0.2,"tip_span":0.8,"chord_fraction":0.25,"control_mixing":{"flap":1.0}}},
                   "t":{"ID":2,"side":"both","is_main":False,"connect_to":{"ID":1,"location":"root","dx":-3.0},"semispan":1.2,"chord":0.6,"grid":{"N":6},
                        "control_surface":{"chord_fraction":0.4,"control_mixing":{"elevator":1.0}}}}}
    controls = {"elevator":0.0, "flap":[[0.2, 4.0],[0.8, 1.0]]}     # flap deflection varies along the span
    def scene():
        s = mx.Scene({"solver":{"type":"linear"},"scene":{}})
        s.add_aircraft("p", ap, state={"velocity":60.0,"alpha":2.0}, control_state=controls)
        return s
    ret = scene().pitch_trim_using_orientation()
    print("API  : returns normally; trimmed elevator =", ret[1]["elevator"], "; flap entry is", type(ret[1]["flap"]).__name__)
    f = os.path.join(work, "trim.json")
    try:
        scene().pitch_trim_using_orientation(filename=f)
        print("file : written:", json.load(open(f))[1])
    except Exception as e:
        print("file : RAISES {0!r}   (expected: file with the same content as the API result)".format(e)); status = 1
finally:
    shutil.rmtree(work, ignore_errors=True)
sys.exit(status)
