"""Aside 4 (unmodified tree): Scene.export_pylot_model() raises KeyError for an aircraft whose dictionary has no
"airfoils" entry ("airfoils" is optional: a default airfoil is used) - it does model_dict.pop("airfoils")
unconditionally.  (The same call works as soon as an "airfoils" block is present.)
Expected: the linearised model is written; the export does not depend on an optional key being present."""
import os, sys, json, shutil, tempfile, warnings
warnings.filterwarnings("ignore")
import machupX as mx

here = os.path.dirname(os.path.abspath(__file__))
work = tempfile.mkdtemp(prefix="work_", dir=here)
status = 0
try:
    for with_airfoils in (True, False):
        ap = {"CG":[0,0,0],"weight":10.0,"controls":{"elevator":{"is_symmetric":True}},
              "wings":{"w":{"ID":1,"side":"both","is_main":True,"semispan":3.0,"chord":1.0,"grid":{"N":6},
                            "control_surface":{"chord_fraction":0.2,"control_mixing":{"elevator":1.0}}}}}
        if with_airfoils:
            ap["airfoils"] = {"default_like":{"type":"linear"}}
        s = mx.Scene({"solver":{"type":"linear"},"scene":{}})
        s.add_aircraft("p", ap, state={"velocity":50.0,"alpha":2.0})
        print("forces computed:", s.solve_forces()["p"]["total"]["FL"])
        f = os.path.join(work, "model.json")
        try:
            s.export_pylot_model(filename=f)
            print("'airfoils' given: {0} -> model written, CL,a = {1}".format(with_airfoils, json.load(open(f))["coefficients"]["CL,a"]))
        except Exception as e:
            print("'airfoils' given: {0} -> RAISES {1!r}".format(with_airfoils, e)); status = 1
finally:
    shutil.rmtree(work, ignore_errors=True)
sys.exit(status)
