"""Aside 3 (unmodified tree): export_stl(close_te=False) raises for any wing that uses a documented CAD end option
(close_wing_root / close_wing_tip / round_wing_root / round_wing_tip).

WingSegment.get_stl_vectors sizes the end caps with  (res//2-2)*2 + ... + close_te : one triangle at the trailing
edge when it is sealed - but with an open trailing edge _get_stl_end_vectors writes a quadrilateral (two triangles)
there, so the cap needs one facet more than was allocated, not one less.  export_vtk accepts the same options.
Expected: an STL whose surface panels are the same as without the cap options, plus the caps."""
import os, sys, shutil, tempfile, warnings
warnings.filterwarnings("ignore")
import machupX as mx

here = os.path.dirname(os.path.abspath(__file__))
work = tempfile.mkdtemp(prefix="work_", dir=here)
status = 0
try:
    for cad in ({"close_wing_tip":True}, {"close_wing_root":True}, {"round_wing_tip":True, "n_rounding_sections":4}):
        ap = {"CG":[0,0,0],"weight":10.0,"airfoils":{"a":{"type":"linear","geometry":{"NACA":"2412"}}},
              "wings":{"w":{"ID":1,"side":"both","is_main":True,"semispan":3.0,"chord":[[0,1.0],[1,0.5]],"grid":{"N":5},"CAD_options":cad}}}
        s = mx.Scene({"solver":{"type":"linear"},"scene":{}})
        s.add_aircraft("p", ap, state={"velocity":50.0,"alpha":2.0})
        for close_te in (True, False):
            for kind in ("vtk", "stl"):
                f = os.path.join(work, "m."+kind)
                try:
                    getattr(s, "export_"+kind)(filename=f, section_resolution=20, close_te=close_te)
                    res = "written"
                except Exception as e:
                    res = "RAISES "+repr(e); status = 1
                print("CAD_options={0}  close_te={1!s:5}  export_{2}: {3}".format(cad, close_te, kind, res))
finally:
    shutil.rmtree(work, ignore_errors=True)
print("expected: every combination is written")
sys.exit(status)
