"""Aside 3 (unmodified tree): names chosen by the user.  pitch_trim() reports {"alpha": ..., <pitch control>: ...};
if the pitch control is itself called "alpha" the two entries collide and the report no longer contains the
angle of attack the aircraft was left at (the report and the state disagree)."""
import sys, os; sys.path.insert(0, os.path.dirname(__file__))
from common import *
a = airplane()
a["controls"]["alpha"] = a["controls"].pop("elevator")
a["wings"]["h_stab"]["control_surface"]["control_mixing"] = {"alpha": 1.0}
sc = scene({"velocity": 100.0, "alpha": 2.0}, {"alpha": 1.0}, a=a)
rep = sc.pitch_trim(pitch_control="alpha", CL=0.4)["plane"]
ap = sc._airplanes["plane"]
alpha_actual = ap.get_aerodynamic_state()[0]; defl_actual = float(ap.current_control_state["alpha"])
print("report:", rep)
print("aircraft left at: angle of attack {0:.6f} deg, control 'alpha' {1:.6f} deg".format(alpha_actual, defl_actual))
print("expected: the report contains both figures; observed: the angle of attack ({0:.4f}) is missing, 'alpha' holds the deflection".format(alpha_actual))
bad = abs(rep["alpha"]-alpha_actual) > 1e-9
print("VIOLATION" if bad else "holds"); sys.exit(1 if bad else 0)
