"""Aside 1 (unmodified tree): export_pylot_model() is an export, but it overwrites the whole aircraft state,
and does not even leave the state its own docstring announces ("zero aerodynamic angles and zero control
deflections"): it ends at alpha = zero-lift alpha, beta = +10 deg, and position / attitude / rates are reset."""
import sys, os; sys.path.insert(0, os.path.dirname(__file__))
from common import *
sc = scene({"velocity": 100.0, "alpha": 4.0, "beta": 2.0, "position": [0.0, 0.0, -700.0], "orientation": [5.0, 3.0, 20.0], "angular_rates": [0.05, 0.02, 0.01]}, {"elevator": 2.0})
FM0 = sc.solve_forces(dimensional=False)["plane"]["total"]; before = pose(sc)
sc.export_pylot_model(filename="_seed/asides/_pylot_out.json")
after = pose(sc); FM1 = sc.solve_forces(dimensional=False)["plane"]["total"]
os.remove("_seed/asides/_pylot_out.json")
a, b, V = sc._airplanes["plane"].get_aerodynamic_state()
print("expected (C08): an export leaves velocity, attitude, position, rates and controls unchanged")
show("before", before); show("after", after)
print("   after the export: alpha = {0:.4f} deg, beta = {1:.4f} deg (docstring promises zero angles)".format(a, b))
print("   CL before {0:.6f}  after {1:.6f}".format(FM0["CL"], FM1["CL"]))
changed = not (np.allclose(before["v"], after["v"]) and np.allclose(before["q"], after["q"]))
print("VIOLATION" if changed else "holds"); sys.exit(1 if changed else 0)
