# Shared helper for the aside scripts: the standard test aeroplane with a coarse grid.
import json, copy, warnings
import numpy as np
import machupX as MX
warnings.simplefilter("ignore")

def airplane(N=10):
    with open("test/airplane_for_testing.json") as f:
        a = json.load(f)
    for w in a["wings"].values():
        w["grid"]["N"] = N
    return a

def scene(state, controls=None, wind=None, a=None):
    inp = {"solver": {"type": "linear"}, "units": "English", "scene": {"atmosphere": {}}}
    if wind is not None:
        inp["scene"]["atmosphere"]["V_wind"] = wind
    sc = MX.Scene(inp)
    sc.add_aircraft("plane", a or airplane(), state=copy.deepcopy(state), control_state=copy.deepcopy(controls or {}))
    return sc

def pose(sc):
    ap = sc._airplanes["plane"]
    v, w, p, q = ap.get_state()
    return {"v": v, "w": w, "p": p, "q": q, "controls": {k: (float(x) if np.ndim(x) == 0 else np.array(x)) for k, x in ap.current_control_state.items()}}

def show(tag, d):
    print("   {0:<7} v={1} w={2} p={3}\n           q={4} controls={5}".format(tag, np.round(d["v"], 6), np.round(d["w"], 6), np.round(d["p"], 3), np.round(d["q"], 6), d["controls"]))
