"""Aside 4 (unmodified tree): the angle-of-attack / sideslip setter is singular at alpha = +-90 deg with sideslip.
An aircraft descending vertically relative to the air with a cross component (body velocity [0, 5, 100]) makes
stability_derivatives() and aero_center() raise ZeroDivisionError half way, leaving the velocity perturbed; close to
that state (u small) no exception is raised but the 'restored' velocity differs from the original one."""
import sys, os; sys.path.insert(0, os.path.dirname(__file__))
from common import *
bad = False
for u in [0.0, 1e-6, 1e-4, 1e-2]:
    for name in ["stability_derivatives", "aero_center"]:
        sc = scene({"velocity": [u, 5.0, 100.0]}); ap = sc._airplanes["plane"]; v0 = ap.v.copy()
        try:
            getattr(sc, name)(); err = ""
        except Exception as e:
            err = "raised " + type(e).__name__
        dv = np.linalg.norm(ap.v-v0); bad |= dv > 1e-9
        print("u={0:<7g} {1:<22} |v_after - v_before| = {2:.3e} ft/s  {3}".format(u, name, dv, err))
print("expected (C08): 0 (up to round-off ~1e-13); observed: see above")
sys.exit(1 if bad else 0)
