"""Aside 2 (unmodified tree): a query that ends in an exception leaves the aircraft in a perturbed / intermediate state.
Triggers shown: iteration limit reached (option max_iterations), a keyword that collides with one the analysis
passes on itself, a missing CL for target_CL.  None of them restores the state before raising."""
import sys, os; sys.path.insert(0, os.path.dirname(__file__))
from common import *
st = {"velocity": 100.0, "alpha": 4.0, "beta": 2.0, "orientation": [5.0, 3.0, 20.0]}
cases = [("pitch_trim(set_trim_state=False, max_iterations=1)", lambda s: s.pitch_trim(set_trim_state=False, max_iterations=1)),
         ("pitch_trim_using_orientation(set_trim_state=False, max_iterations=1)", lambda s: s.pitch_trim_using_orientation(set_trim_state=False, max_iterations=1)),
         ("target_CL(CL=0.5, set_state=False, max_iterations=1)", lambda s: s.target_CL(CL=0.5, set_state=False, max_iterations=1)),
         ("target_CL(set_state=False)   [CL forgotten]", lambda s: s.target_CL(set_state=False)),
         ("stability_derivatives(dimensional=False)", lambda s: s.stability_derivatives(dimensional=False)),
         ("derivatives(dimensional=False)", lambda s: s.derivatives(dimensional=False))]
bad = False
for label, fn in cases:
    sc = scene(st, {"elevator": 1.0}); before = pose(sc)
    try:
        fn(sc); err = "no exception"
    except Exception as e:
        err = "{0}: {1}".format(type(e).__name__, str(e)[:70])
    after = pose(sc)
    same = np.allclose(before["v"], after["v"], atol=1e-9) and np.allclose(before["q"], after["q"], atol=1e-12) and before["controls"] == after["controls"]
    bad |= not same
    print(label); print("   raised:", err); show("before", before); show("after", after); print("   ->", "unchanged" if same else "STATE CHANGED")
print("expected (C08): state after == state before for every query; observed: see above")
sys.exit(1 if bad else 0)
