"""Aside 5 (unmodified tree): arrays vs scalars.  A deflection distribution handed over as a numpy array is recorded
by reference.  If the caller re-uses (overwrites) its own array afterwards - no MachUpX call involved - the flap
deflections on the wing keep the old values, but the recorded control state silently changes; the next query that
'restores' the controls (control_derivatives, pitch_trim(set_trim_state=False), ...) then applies the NEW table, so
solve_forces before and after the query differ.  (State vectors are copied on input, control tables are not.)
The dictionaries returned by pitch_trim_using_orientation alias the recorded tables in the same way."""
import sys, os; sys.path.insert(0, os.path.dirname(__file__))
from common import *
tab = np.array([[0.0, 2.0], [1.0, 4.0]])
sc = scene({"velocity": 100.0, "alpha": 3.0})
sc.set_aircraft_control_state({"aileron": tab, "elevator": 1.0})
tab[:, 1] = [6.0, 8.0]   # caller prepares its next setting in the same array, does not apply it
FM0 = sc.solve_forces(dimensional=False)["plane"]["total"]
sc.control_derivatives()   # a query
FM1 = sc.solve_forces(dimensional=False)["plane"]["total"]
print("Cl before the query {0:.9f}   after the query {1:.9f}   (expected: equal)".format(FM0["Cl"], FM1["Cl"]))
bad = abs(FM0["Cl"]-FM1["Cl"]) > 1e-9
print("VIOLATION" if bad else "holds"); sys.exit(1 if bad else 0)
