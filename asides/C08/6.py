"""Aside 6 (unmodified tree, not C08 itself but found on the way): a deflection table written with integers
([[0, 2], [1, 4]]) makes control_derivatives() return exactly 0 for that control (the finite step is stored in an
integer array and truncates to 0); a control given as a function of span makes control_derivatives() raise TypeError."""
import sys, os; sys.path.insert(0, os.path.dirname(__file__))
from common import *
r = {}
for tab in ([[0.0, 2.0], [1.0, 4.0]], [[0, 2], [1, 4]]):
    sc = scene({"velocity": 100.0, "alpha": 3.0}, {"aileron": tab})
    r[str(tab)] = sc.control_derivatives()["plane"]["Cl,daileron"]
    print("aileron table {0}: Cl,daileron = {1}".format(tab, r[str(tab)]))
sc = scene({"velocity": 100.0, "alpha": 3.0}, {"aileron": (lambda s: 3.0*s)})
try:
    sc.control_derivatives(); print("callable aileron: ok")
except Exception as e:
    print("callable aileron: control_derivatives raised {0}: {1}".format(type(e).__name__, e))
vals = list(r.values()); bad = abs(vals[0]-vals[1]) > 1e-9
print("expected: same derivative for the two spellings of the table; observed:", vals)
sys.exit(1 if bad else 0)
