"""Aside 3 (unmodified tree): trims that end with an exception other than MaxIterationError.
(a) pitch control with a saturation angle smaller than the deflection needed  -> numpy LinAlgError (singular Jacobian)
(b) anti-symmetric control used as pitch control                              -> SolverNotConvergedError from the lifting-line solver
(c) target_CL for a reachable CL: the iteration always restarts from alpha = 0, where for a tail lying in the wing plane the
    trailing vortices hit the tail control points; with sideslip and body rates the finite-difference lift slope there is wrong by a
    factor 10, the first step goes to 17 deg and the lifting-line solver gives up -> SolverNotConvergedError (pitch_trim from the same state works)."""
import sys, copy, warnings
import numpy as np
import machupX as MX
warnings.simplefilter("ignore")

AIRFOILS = {
    "NACA_0010": {"type": "linear", "aL0": 0.0, "CLa": 6.4336, "CmL0": 0.0, "Cma": 0.0,
                  "CD0": 0.00513, "CD1": 0.0, "CD2": 0.0984, "CL_max": 1.4, "geometry": {"NACA": "0010"}},
    "NACA_2410": {"type": "linear", "aL0": -0.0368, "CLa": 6.1976, "CmL0": -0.0525, "Cma": 0.0326,
                  "CD0": 0.00569, "CD1": -0.0045, "CD2": 0.0104, "CL_max": 1.4, "geometry": {"NACA": "2410"}},
}

def airplane(CG=[0.0, 0.0, 0.0], weight=50.0):
    return {
        "CG": CG, "weight": weight,
        "reference": {"area": 8.0, "longitudinal_length": 1.0, "lateral_length": 8.0},
        "controls": {"aileron": {"is_symmetric": False}, "elevator": {"is_symmetric": True}, "rudder": {"is_symmetric": False}},
        "airfoils": AIRFOILS,
        "wings": {
            "main_wing": {"ID": 1, "side": "both", "is_main": True, "semispan": 4.0, "airfoil": "NACA_2410",
                          "control_surface": {"chord_fraction": 0.1, "control_mixing": {"aileron": 1.0}}, "grid": {"N": 20}},
            "h_stab": {"ID": 2, "side": "both", "is_main": False, "connect_to": {"ID": 1, "location": "root", "dx": -3.0},
                       "semispan": 2.0, "airfoil": "NACA_0010",
                       "control_surface": {"chord_fraction": 0.5, "control_mixing": {"elevator": 1.0}}, "grid": {"N": 20}},
            "v_stab": {"ID": 3, "side": "right", "is_main": False, "connect_to": {"ID": 1, "location": "root", "dx": -3.0, "dz": -0.1},
                       "semispan": 2.0, "dihedral": 90.0, "airfoil": "NACA_0010",
                       "control_surface": {"chord_fraction": 0.5, "control_mixing": {"rudder": 1.0}}, "grid": {"N": 20}},
        },
    }

def new_scene(state, controls=None, ap=None):
    scene = MX.Scene({"solver": {"type": "nonlinear"}, "units": "English", "scene": {"atmosphere": {}}})
    scene.add_aircraft("plane", ap if ap is not None else airplane(), state=copy.deepcopy(state), control_state=copy.deepcopy(controls or {}))
    return scene

def coefficients(scene):
    FM = scene.solve_forces(dimensional=False)["plane"]["total"]
    return float(FM["CL"]), float(FM["Cm"])

from machupX.exceptions import MaxIterationError
bad = 0
def attempt(label, f):
    global bad
    try:
        r = f(); print(label, "-> returned", r)
    except MaxIterationError as e:
        print(label, "-> MaxIterationError (allowed)")
    except Exception as e:
        print(label, "-> {0}: {1}".format(type(e).__name__, str(e)[:90])); bad += 1

ap = airplane(weight=90.0)
ap["wings"]["h_stab"]["control_surface"]["saturation_angle"] = 3.0
attempt("(a) pitch_trim, elevator saturating at 3 deg", lambda: new_scene({"velocity": 100.0, "alpha": 2.0}, ap=ap).pitch_trim())
attempt("(b) pitch_trim(pitch_control='aileron')", lambda: new_scene({"velocity": 100.0, "alpha": 2.0}).pitch_trim(pitch_control="aileron"))
state = {"velocity": 100.0, "alpha": 2.0, "beta": 2.0, "angular_rates": [0.1, 0.1, 0.05]}
attempt("(c) target_CL(CL=0.35), beta = 2 deg, rates (0.1, 0.1, 0.05)", lambda: new_scene(state).target_CL(CL=0.35))
s = new_scene(state); t = s.pitch_trim(CL=0.35)["plane"]
print("    pitch_trim(CL=0.35) from the same state: alpha = {0:.6f}, elevator = {1:.6f}, CL, Cm = {2}".format(float(t["alpha"]), float(t["elevator"]), coefficients(s)))
s = new_scene(dict(state, alpha=1.8)); print("    CL at alpha = 1.8 deg, no deflection: {0:.6f}; at 2.0 deg: {1:.6f}  (so CL = 0.35 is reachable)".format(coefficients(s)[0], coefficients(new_scene(dict(state, alpha=2.0)))[0]))
sys.exit(1 if bad else 0)
