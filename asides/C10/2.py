"""Aside 2 (unmodified tree): a pitch control that the user named "alpha".
pitch_trim returns {"alpha": <angle of attack>, <pitch_control>: <deflection>}; with a control called "alpha" the two keys collide,
the angle of attack is lost and the value under "alpha" is the control deflection."""
import sys, copy, warnings
import numpy as np
import machupX as MX
warnings.simplefilter("ignore")

AIRFOILS = {
    "NACA_0010": {"type": "linear", "aL0": 0.0, "CLa": 6.4336, "CmL0": 0.0, "Cma": 0.0,
                  "CD0": 0.00513, "CD1": 0.0, "CD2": 0.0984, "CL_max": 1.4, "geometry": {"NACA": "0010"}},
    "NACA_2410": {"type": "linear", "aL0": -0.0368, "CLa": 6.1976, "CmL0": -0.0525, "Cma": 0.0326,
                  "CD0": 0.00569, "CD1": -0.0045, "CD2": 0.0104, "CL_max": 1.4, "geometry": {"NACA": "2410"}},
}

def airplane(CG=[0.0, 0.0, 0.0], weight=50.0):
    return {
        "CG": CG, "weight": weight,
        "reference": {"area": 8.0, "longitudinal_length": 1.0, "lateral_length": 8.0},
        "controls": {"aileron": {"is_symmetric": False}, "elevator": {"is_symmetric": True}, "rudder": {"is_symmetric": False}},
        "airfoils": AIRFOILS,
        "wings": {
            "main_wing": {"ID": 1, "side": "both", "is_main": True, "semispan": 4.0, "airfoil": "NACA_2410",
                          "control_surface": {"chord_fraction": 0.1, "control_mixing": {"aileron": 1.0}}, "grid": {"N": 20}},
            "h_stab": {"ID": 2, "side": "both", "is_main": False, "connect_to": {"ID": 1, "location": "root", "dx": -3.0},
                       "semispan": 2.0, "airfoil": "NACA_0010",
                       "control_surface": {"chord_fraction": 0.5, "control_mixing": {"elevator": 1.0}}, "grid": {"N": 20}},
            "v_stab": {"ID": 3, "side": "right", "is_main": False, "connect_to": {"ID": 1, "location": "root", "dx": -3.0, "dz": -0.1},
                       "semispan": 2.0, "dihedral": 90.0, "airfoil": "NACA_0010",
                       "control_surface": {"chord_fraction": 0.5, "control_mixing": {"rudder": 1.0}}, "grid": {"N": 20}},
        },
    }

def new_scene(state, controls=None, ap=None):
    scene = MX.Scene({"solver": {"type": "nonlinear"}, "units": "English", "scene": {"atmosphere": {}}})
    scene.add_aircraft("plane", ap if ap is not None else airplane(), state=copy.deepcopy(state), control_state=copy.deepcopy(controls or {}))
    return scene

def coefficients(scene):
    FM = scene.solve_forces(dimensional=False)["plane"]["total"]
    return float(FM["CL"]), float(FM["Cm"])

ap = airplane()
ap["controls"]["alpha"] = ap["controls"].pop("elevator")
ap["wings"]["h_stab"]["control_surface"]["control_mixing"] = {"alpha": 1.0}
state = {"velocity": 100.0, "alpha": 2.0}
scene = new_scene(state, ap=ap)
trim = scene.pitch_trim(pitch_control="alpha", CL=0.4)["plane"]
a_true = scene._airplanes["plane"].get_aerodynamic_state()[0]
d_true = scene._airplanes["plane"].current_control_state["alpha"]
print("returned:", {k: float(v) for k, v in trim.items()})
print("scene after the call: angle of attack = {0:.9f} deg, control 'alpha' = {1:.9f} deg, CL, Cm = {2}".format(a_true, float(d_true), coefficients(scene)))
# apply what was returned the way the documentation describes it ("alpha" is the angle of attack)
fresh = new_scene(dict(state, alpha=float(trim["alpha"])), ap=ap)
CL, Cm = coefficients(fresh)
print("returned 'alpha' applied as the angle of attack on a fresh scene: CL = {0:.9f} (expected 0.4), Cm = {1:.3e} (expected 0)".format(CL, Cm))
sys.exit(1 if (len(trim) < 2 or abs(CL-0.4) > 1e-9) else 0)
