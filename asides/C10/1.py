"""Aside 1 (unmodified tree): aero_center() with non-zero angular rates.
With the CG placed at the reported aerodynamic centre, Cm should equal Cm_ac and Cm,alpha should vanish.
Both fail as soon as the aircraft has body rates (the rotation is about the CG, so moving the CG changes the local velocities)."""
import sys, copy, warnings
import numpy as np
import machupX as MX
warnings.simplefilter("ignore")

AIRFOILS = {
    "NACA_0010": {"type": "linear", "aL0": 0.0, "CLa": 6.4336, "CmL0": 0.0, "Cma": 0.0,
                  "CD0": 0.00513, "CD1": 0.0, "CD2": 0.0984, "CL_max": 1.4, "geometry": {"NACA": "0010"}},
    "NACA_2410": {"type": "linear", "aL0": -0.0368, "CLa": 6.1976, "CmL0": -0.0525, "Cma": 0.0326,
                  "CD0": 0.00569, "CD1": -0.0045, "CD2": 0.0104, "CL_max": 1.4, "geometry": {"NACA": "2410"}},
}

def airplane(CG=[0.0, 0.0, 0.0], weight=50.0):
    return {
        "CG": CG, "weight": weight,
        "reference": {"area": 8.0, "longitudinal_length": 1.0, "lateral_length": 8.0},
        "controls": {"aileron": {"is_symmetric": False}, "elevator": {"is_symmetric": True}, "rudder": {"is_symmetric": False}},
        "airfoils": AIRFOILS,
        "wings": {
            "main_wing": {"ID": 1, "side": "both", "is_main": True, "semispan": 4.0, "airfoil": "NACA_2410",
                          "control_surface": {"chord_fraction": 0.1, "control_mixing": {"aileron": 1.0}}, "grid": {"N": 20}},
            "h_stab": {"ID": 2, "side": "both", "is_main": False, "connect_to": {"ID": 1, "location": "root", "dx": -3.0},
                       "semispan": 2.0, "airfoil": "NACA_0010",
                       "control_surface": {"chord_fraction": 0.5, "control_mixing": {"elevator": 1.0}}, "grid": {"N": 20}},
            "v_stab": {"ID": 3, "side": "right", "is_main": False, "connect_to": {"ID": 1, "location": "root", "dx": -3.0, "dz": -0.1},
                       "semispan": 2.0, "dihedral": 90.0, "airfoil": "NACA_0010",
                       "control_surface": {"chord_fraction": 0.5, "control_mixing": {"rudder": 1.0}}, "grid": {"N": 20}},
        },
    }

def new_scene(state, controls=None, ap=None):
    scene = MX.Scene({"solver": {"type": "nonlinear"}, "units": "English", "scene": {"atmosphere": {}}})
    scene.add_aircraft("plane", ap if ap is not None else airplane(), state=copy.deepcopy(state), control_state=copy.deepcopy(controls or {}))
    return scene

def coefficients(scene):
    FM = scene.solve_forces(dimensional=False)["plane"]["total"]
    return float(FM["CL"]), float(FM["Cm"])

def cm_alpha(scene, d=0.5):
    ap = scene._airplanes["plane"]
    a0, b0, V0 = ap.get_aerodynamic_state()
    ap.set_aerodynamic_state(alpha=a0+d, beta=b0, velocity=V0); f = coefficients(scene)[1]
    ap.set_aerodynamic_state(alpha=a0-d, beta=b0, velocity=V0); b = coefficients(scene)[1]
    ap.set_aerodynamic_state(alpha=a0, beta=b0, velocity=V0)
    return (f-b)/(2.0*np.radians(d))

worst = 0.0
for rates in [[0.0, 0.0, 0.0], [0.0, 0.2, 0.0], [0.3, 0.2, 0.1]]:
    state = {"velocity": 100.0, "alpha": 4.0, "beta": 0.0, "angular_rates": rates}
    ac = new_scene(state).aero_center()["plane"]
    moved = new_scene(state, ap=airplane(CG=[float(x) for x in ac["aero_center"]]))
    Cm = coefficients(moved)[1]
    Cma = cm_alpha(moved)
    print("rates {0}: aero_center = {1}, Cm_ac = {2:.12f}".format(rates, [float(x) for x in ac["aero_center"]], float(ac["Cm_ac"])))
    print("      with the CG at that point: Cm = {0:.12f} (expected Cm_ac, difference {1:.3e}),  Cm,alpha = {2:.3e} /rad (expected 0)".format(Cm, Cm-float(ac["Cm_ac"]), Cma))
    if any(rates):
        worst = max(worst, abs(Cm-float(ac["Cm_ac"])), abs(Cma))
sys.exit(1 if worst > 1e-9 else 0)
