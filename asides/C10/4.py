"""Aside 4 (unmodified tree): the pitch control currently holds a spanwise deflection distribution (an array, which set_control_state accepts).
pitch_trim adds its perturbation to the whole array, span column included, and stops with an IOError about the end points of the distribution."""
import sys, copy, warnings
import numpy as np
import machupX as MX
warnings.simplefilter("ignore")

AIRFOILS = {
    "NACA_0010": {"type": "linear", "aL0": 0.0, "CLa": 6.4336, "CmL0": 0.0, "Cma": 0.0,
                  "CD0": 0.00513, "CD1": 0.0, "CD2": 0.0984, "CL_max": 1.4, "geometry": {"NACA": "0010"}},
    "NACA_2410": {"type": "linear", "aL0": -0.0368, "CLa": 6.1976, "CmL0": -0.0525, "Cma": 0.0326,
                  "CD0": 0.00569, "CD1": -0.0045, "CD2": 0.0104, "CL_max": 1.4, "geometry": {"NACA": "2410"}},
}

def airplane(CG=[0.0, 0.0, 0.0], weight=50.0):
    return {
        "CG": CG, "weight": weight,
        "reference": {"area": 8.0, "longitudinal_length": 1.0, "lateral_length": 8.0},
        "controls": {"aileron": {"is_symmetric": False}, "elevator": {"is_symmetric": True}, "rudder": {"is_symmetric": False}},
        "airfoils": AIRFOILS,
        "wings": {
            "main_wing": {"ID": 1, "side": "both", "is_main": True, "semispan": 4.0, "airfoil": "NACA_2410",
                          "control_surface": {"chord_fraction": 0.1, "control_mixing": {"aileron": 1.0}}, "grid": {"N": 20}},
            "h_stab": {"ID": 2, "side": "both", "is_main": False, "connect_to": {"ID": 1, "location": "root", "dx": -3.0},
                       "semispan": 2.0, "airfoil": "NACA_0010",
                       "control_surface": {"chord_fraction": 0.5, "control_mixing": {"elevator": 1.0}}, "grid": {"N": 20}},
            "v_stab": {"ID": 3, "side": "right", "is_main": False, "connect_to": {"ID": 1, "location": "root", "dx": -3.0, "dz": -0.1},
                       "semispan": 2.0, "dihedral": 90.0, "airfoil": "NACA_0010",
                       "control_surface": {"chord_fraction": 0.5, "control_mixing": {"rudder": 1.0}}, "grid": {"N": 20}},
        },
    }

def new_scene(state, controls=None, ap=None):
    scene = MX.Scene({"solver": {"type": "nonlinear"}, "units": "English", "scene": {"atmosphere": {}}})
    scene.add_aircraft("plane", ap if ap is not None else airplane(), state=copy.deepcopy(state), control_state=copy.deepcopy(controls or {}))
    return scene

def coefficients(scene):
    FM = scene.solve_forces(dimensional=False)["plane"]["total"]
    return float(FM["CL"]), float(FM["Cm"])

dist = np.array([[0.0, 1.0], [1.0, 3.0]])   # span fraction, deflection [deg]
scene = new_scene({"velocity": 100.0, "alpha": 2.0}, {"elevator": dist})
print("CL, Cm with the elevator distribution:", coefficients(scene))
try:
    print(scene.pitch_trim(CL=0.4)); sys.exit(0)
except Exception as e:
    print("pitch_trim -> {0}: {1}".format(type(e).__name__, e)); sys.exit(1)
