"""Aside 3 (unmodified tree, AT gimbal lock - strictly outside the property's 'away from gimbal lock' clause, reported for
completeness): quat_to_euler() has a dedicated gimbal-lock branch guarded by `quantity != 0.5 and quantity != -0.5`.
For an elevation of exactly +-90 deg the quaternion built by euler_to_quat() gives quantity = 0.49999999999999994 (or 0.5
only for some bank/heading pairs), the guard is not triggered, and the regular branch returns angles that describe a
rotation up to ~10 deg away from the input."""
import sys
import numpy as np
from machupX.helpers import euler_to_quat, quat_to_euler, quat_trans

worst = 0.0
for E_deg in [(20.0, 90.0, 35.0), (20.0, -90.0, 35.0), (0.0, 90.0, 0.0), (-50.0, 90.0, 10.0), (20.0, 89.9999, 35.0)]:
    q = euler_to_quat(np.radians(E_deg))
    with np.errstate(all="ignore"):
        E_back = quat_to_euler(q)
    q_back = euler_to_quat(E_back)
    err = max(np.linalg.norm(quat_trans(q, e)-quat_trans(q_back, e)) for e in np.identity(3))
    print("E = {0!s:<22} q0*q2-q1*q3 = {1!r:<22} back = {2}  rotation error = {3:.3e} rad".format(
        E_deg, float(q[0]*q[2]-q[1]*q[3]), np.round(np.degrees(E_back), 6), err))
    worst = max(worst, err)
sys.exit(0 if worst < 1e-6 else 1)
