"""Aside 2 (unmodified tree): 'orientation given as a quaternion, normalised or not'.
The quaternion is normalised with np.linalg.norm(q); for a (legitimate, if odd) quaternion whose components are
below ~1e-162 or above ~1e154 the sum of squares under/overflows, the 'unit' quaternion becomes nan/0 and every
load comes back nan instead of equal to the loads at the same attitude given with a sane scale."""
import sys, warnings
import numpy as np
import machupX as MX
from machupX.helpers import euler_to_quat
warnings.filterwarnings("ignore")

AIRFOIL = {"NACA_0010": {"type": "linear", "aL0": 0.0, "CLa": 6.4336, "CmL0": 0.0, "Cma": 0.0,
                         "CD0": 0.00513, "CD1": 0.0, "CD2": 0.0984, "CL_max": 1.4, "geometry": {"NACA": "0010"}}}
def plane():
    return {"CG": [0, 0, 0], "weight": 50.0,
            "reference": {"area": 8.0, "longitudinal_length": 1.0, "lateral_length": 8.0},
            "airfoils": AIRFOIL,
            "wings": {"main_wing": {"ID": 1, "side": "both", "is_main": True, "semispan": 4.0, "chord": 1.0,
                                    "airfoil": "NACA_0010", "grid": {"N": 10}}}}
def Fz(q):
    scene = MX.Scene({"solver": {"type": "linear"}, "scene": {}})
    scene.add_aircraft("A", plane(), state={"velocity": [100.0, 0.0, 5.0], "orientation": list(q)})
    return scene.solve_forces()["A"]["total"]["Fz"]

q = euler_to_quat(np.radians([20.0, 10.0, 40.0]))
ok = True
ref = Fz(q)
for scale in [1.0, 1e-3, 1e3, 1e-150, 1e-170, 1e160]:
    try:
        with np.errstate(all="ignore"):
            val = Fz(scale*q)
        good = bool(np.isfinite(val) and abs(val-ref) < 1e-9*abs(ref))
    except Exception as e:
        val = "raised "+type(e).__name__
        good = False
    ok = ok and good
    print("quaternion scaled by {0:8.0e}: Fz = {1!r:24}  (expected {2!r}) {3}".format(scale, val, ref, "" if good else "  <-- differs"))
sys.exit(0 if ok else 1)
