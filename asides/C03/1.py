"""Aside 1 (unmodified tree): a position passed as a float ndarray is aliased by the aircraft, so
translating the scene by updating that array in place and handing it to set_aircraft_state() is not noticed
(old position IS new position -> geometry not refreshed).  Two aircraft translated by the same vector then
no longer give the same body-frame loads as before the translation."""
import sys, warnings
import numpy as np
import machupX as MX
warnings.filterwarnings("ignore")

AIRFOIL = {"NACA_0010": {"type": "linear", "aL0": 0.0, "CLa": 6.4336, "CmL0": 0.0, "Cma": 0.0,
                         "CD0": 0.00513, "CD1": 0.0, "CD2": 0.0984, "CL_max": 1.4, "geometry": {"NACA": "0010"}}}
def plane():
    return {"CG": [0, 0, 0], "weight": 50.0,
            "reference": {"area": 8.0, "longitudinal_length": 1.0, "lateral_length": 8.0},
            "airfoils": AIRFOIL,
            "wings": {"main_wing": {"ID": 1, "side": "both", "is_main": True, "semispan": 4.0, "chord": 1.0,
                                    "airfoil": "NACA_0010", "grid": {"N": 10}}}}

T = np.array([0.0, 40.0, 0.0])          # translation applied to the whole scene

def run(as_array):
    scene = MX.Scene({"solver": {"type": "linear"}, "scene": {}})
    pA = np.array([0.0, 0.0, 0.0]); pB = np.array([-3.0, 6.0, 0.5])
    stA = {"velocity": 100.0, "alpha": 3.0, "position": pA if as_array else list(pA)}
    stB = {"velocity": 100.0, "alpha": 3.0, "position": pB if as_array else list(pB)}
    scene.add_aircraft("A", plane(), state=stA)
    scene.add_aircraft("B", plane(), state=stB)
    before = scene.solve_forces()["B"]["total"]["FL"]
    # translate both aircraft by T
    # (aircraft B first, then aircraft A)
    stB["position"] = list(pB+T)
    scene.set_aircraft_state(state=stB, aircraft="B")
    if as_array:
        pA += T                          # in-place update of the user's own array
        stA["position"] = pA
    else:
        stA["position"] = list(pA+T)
    scene.set_aircraft_state(state=stA, aircraft="A")
    after = scene.solve_forces()["B"]["total"]["FL"]
    return before, after

ok = True
for as_array in (False, True):
    b, a = run(as_array)
    print("positions given as {0}: FL(B) before translation {1:.9f}, after {2:.9f}, diff {3:.2e}".format(
        "ndarray (updated in place)" if as_array else "lists", b, a, a-b))
    if abs(a-b) > 1e-7*abs(b):
        ok = False
print("property (translation invariance) " + ("HOLDS" if ok else "VIOLATED"))
sys.exit(0 if ok else 1)
