"""Aside 5 (unmodified tree, loud): an airfoil distribution read from a .csv file cannot use airfoil names that
look like numbers ("2410", "0010" - the natural NACA names) or that follow a blank after the comma; the same
table given inline works.  The error text claims the airfoil is not specified although it is.
"""
import json, warnings, sys, os, tempfile
import numpy as np
import machupX as MX
warnings.simplefilter("ignore")
af = json.load(open("test/airfoils_for_testing.json"))
airfoils = {"2410": af["NACA_2410"], "0010": af["NACA_0010"]}
tmp = tempfile.mkdtemp(dir="_seed/asides")
path = os.path.join(tmp, "dist.csv")
open(path, "w").write("0.0,2410\n1.0,0010\n")
rc = 0
for spec in [[[0.0, "2410"], [1.0, "0010"]], path]:
    airplane = {"CG": [0,0,0], "weight": 100.0,
                "reference": {"area": 8.0, "longitudinal_length": 1.0, "lateral_length": 8.0},
                "airfoils": airfoils,
                "wings": {"wing": {"ID": 1, "side": "both", "is_main": True, "semispan": 4.0, "chord": 1.0,
                                   "airfoil": spec, "grid": {"N": 5}}}}
    scene = MX.Scene({"solver": {"type": "nonlinear"}, "units": "English", "scene": {"atmosphere": {}}})
    try:
        scene.add_aircraft("plane", airplane, state={"velocity": 100.0, "alpha": 3.0})
        print(spec, "->", np.array(scene.distributions()["plane"]["wing_right"]["section_CL"]).round(5))
    except Exception as e:
        print(spec, "->", repr(e)); rc = 1
os.remove(path); os.rmdir(tmp)
sys.exit(rc)
