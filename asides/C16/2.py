"""Aside 2 (unmodified tree): a step change of airfoil written with a repeated station
([[0,A],[0.5,A],[0.5,B],[1,B]]) and a control point exactly on that station (linear grid, odd N):
the RIGHT segment gets all section coefficients = 0 at that control point, the LEFT segment gets airfoil A.
Left and right are not treated identically and 0 is neither A nor B.
"""
import json, warnings, sys
import numpy as np
import machupX as MX
warnings.simplefilter("ignore")
airfoils = json.load(open("test/airfoils_for_testing.json"))
stations = [[0.0, "NACA_2410"], [0.5, "NACA_2410"], [0.5, "NACA_0010"], [1.0, "NACA_0010"]]
airplane = {"CG": [0,0,0], "weight": 100.0,
            "reference": {"area": 8.0, "longitudinal_length": 1.0, "lateral_length": 8.0},
            "airfoils": airfoils,
            "wings": {"wing": {"ID": 1, "side": "both", "is_main": True, "semispan": 4.0, "chord": 1.0,
                               "airfoil": stations, "grid": {"N": 5, "distribution": "linear"}}}}
scene = MX.Scene({"solver": {"type": "nonlinear"}, "units": "English", "scene": {"atmosphere": {}}})
scene.add_aircraft("plane", airplane, state={"velocity": 100.0, "alpha": 3.0})
segs = scene._airplanes["plane"].wing_segments
a = np.full(5, 0.05); z = np.zeros(5)
for name in ["wing_left", "wing_right"]:
    print(name, "span", segs[name].cp_span_locs)
    print("   CL ", segs[name].get_cp_CL(a, z, z).round(5))
    print("   CLa", segs[name].get_cp_CLa(a, z, z).round(5))
    print("   CD ", segs[name].get_cp_CD(a, z, z).round(5))
print("expected: NACA_2410 values (CL 0.53795, CLa 6.1976) inboard of 0.5, NACA_0010 values (CL 0.32168, CLa 6.4336) outboard;")
print("          at s = 0.5 either of the two, the same on both sides - never 0.")
d = scene.distributions()["plane"]
print("distributions section_CL left ", np.array(d["wing_left"]["section_CL"]).round(5))
print("distributions section_CL right", np.array(d["wing_right"]["section_CL"]).round(5))
bad = segs["wing_right"].get_cp_CLa(a, z, z)[2] == 0.0
sys.exit(1 if bad else 0)
