"""Aside 1 (unmodified tree): solver type "linear" - Scene.distributions()["section_CL"] is NOT the
airfoil lift coefficient at the control point's own angle of attack.  It is the first estimate made at the
freestream angle of attack (alpha_inf) before the circulation was solved; "section_Cm" and
"section_parasitic_CD" in the same dictionary ARE evaluated at the reported (induced) alpha.
"""
import json, warnings, sys
import numpy as np
import machupX as MX
from airfoil_db import Airfoil
warnings.simplefilter("ignore")
airfoils = json.load(open("test/airfoils_for_testing.json"))
airplane = {"CG": [0,0,0], "weight": 100.0,
            "reference": {"area": 8.0, "longitudinal_length": 1.0, "lateral_length": 8.0},
            "airfoils": airfoils,
            "wings": {"wing": {"ID": 1, "side": "both", "is_main": True, "semispan": 4.0, "chord": 1.0,
                               "airfoil": "NACA_2410", "grid": {"N": 6}}}}
ref = Airfoil("NACA_2410", airfoils["NACA_2410"])
rc = 0
for solver in ["linear", "nonlinear"]:
    scene = MX.Scene({"solver": {"type": solver}, "units": "English", "scene": {"atmosphere": {}}})
    scene.add_aircraft("plane", airplane, state={"velocity": 100.0, "alpha": 5.0})
    d = scene.distributions()["plane"]["wing_right"]
    alpha = np.array(d["alpha"])
    print("solver:", solver)
    print("  reported alpha [deg]          ", np.degrees(alpha).round(4))
    print("  airfoil CL at reported alpha  ", ref.get_CL(alpha=alpha).round(5), "(expected section_CL)")
    print("  section_CL reported           ", np.array(d["section_CL"]).round(5))
    print("  airfoil CL at freestream alpha", round(ref.get_CL(alpha=np.radians(5.0)), 5))
    print("  section_Cm - Cm(alpha) max    ", np.max(np.abs(np.array(d["section_Cm"])-ref.get_Cm(alpha=alpha))))
    if np.max(np.abs(np.array(d["section_CL"])-ref.get_CL(alpha=alpha))) > 1e-9:
        rc = 1
sys.exit(rc)
