"""Aside 4 (unmodified tree, weak): with the default options the section drag coefficient is evaluated at a
Reynolds number built on the TOTAL local speed (self._Re_unswept), whereas the "Re" column of distributions()
and the lift/moment coefficients use the IN-PLANE speed.  With sideslip and a Reynolds-dependent drag polar
section_parasitic_CD is therefore not the airfoil's CD at the control point's reported Reynolds number.
(use_in_plane = False removes the difference.)
"""
import warnings, sys
import numpy as np
import machupX as MX
from airfoil_db import Airfoil
warnings.simplefilter("ignore")
def CL(**kw): return 6.0*(kw.get("alpha", 0.0)+0.03)+0.0*np.asarray(kw.get("Rey", 1e6))  # (array-valued whenever Rey is)
def CD(**kw): return 0.006+0.01*CL(**kw)**2+0.004*(1e6/np.maximum(kw.get("Rey", 1e6), 1.0))**0.5
def Cm(**kw): return -0.05+0.0*kw.get("alpha", 0.0)
airfoils = {"A": {"type": "functional", "CL": CL, "CD": CD, "Cm": Cm, "geometry": {"NACA": "2410"}}}
airplane = {"CG": [0,0,0], "weight": 100.0,
            "reference": {"area": 8.0, "longitudinal_length": 1.0, "lateral_length": 8.0},
            "airfoils": airfoils,
            "wings": {"wing": {"ID": 1, "side": "both", "is_main": True, "semispan": 4.0, "chord": 1.0,
                               "airfoil": "A", "grid": {"N": 6}}}}
rc = 0
for in_plane in [True, False]:
    scene = MX.Scene({"solver": {"type": "nonlinear", "use_in_plane": in_plane, "use_swept_sections": False}, "units": "English", "scene": {"atmosphere": {}}})
    scene.add_aircraft("plane", airplane, state={"velocity": 100.0, "alpha": 3.0, "beta": 15.0})
    d = scene.distributions()["plane"]["wing_right"]
    alpha = np.array(d["alpha"]); Re = np.array(d["Re"])
    exp = CD(alpha=alpha, Rey=Re)
    obs = np.array(d["section_parasitic_CD"])
    print("use_in_plane =", in_plane)
    print("  CD(alpha, Re reported)", exp.round(7))
    print("  section_parasitic_CD  ", obs.round(7), " max diff %.2e"%np.max(np.abs(exp-obs)))
    if np.max(np.abs(exp-obs)) > 1e-9: rc = 1
sys.exit(rc)
