"""Aside 3 (unmodified tree): airfoil stations that do not start at 0 / end at 1.
 - first station at 0.2: control points inboard of it are EXTRAPOLATED (weight < 0) beyond the root
   airfoil, while the camber/thickness used for the swept-section model are held constant (np.interp);
 - last station at 0.8: IndexError at the first coefficient query (construction succeeds).
The documentation says the span column works "as with twist", which holds the end values.
"""
import json, warnings, sys
import numpy as np
import machupX as MX
warnings.simplefilter("ignore")
airfoils = json.load(open("test/airfoils_for_testing.json"))
def make(stations):
    airplane = {"CG": [0,0,0], "weight": 100.0,
                "reference": {"area": 8.0, "longitudinal_length": 1.0, "lateral_length": 8.0},
                "airfoils": airfoils,
                "wings": {"wing": {"ID": 1, "side": "right", "is_main": True, "semispan": 4.0, "chord": 1.0,
                                   "airfoil": stations, "grid": {"N": 5, "distribution": "linear"}}}}
    scene = MX.Scene({"solver": {"type": "nonlinear"}, "units": "English", "scene": {"atmosphere": {}}})
    scene.add_aircraft("plane", airplane, state={"velocity": 100.0, "alpha": 3.0})
    return scene._airplanes["plane"].wing_segments["wing_right"]
a = np.full(5, 0.05); z = np.zeros(5)
seg = make([[0.2, "NACA_2410"], [1.0, "NACA_0010"]])
print("stations 0.2 .. 1.0; span", seg.cp_span_locs)
print("  CL         ", seg.get_cp_CL(a, z, z).round(5), " (NACA_2410 alone gives 0.53795: the value at s=0.1 lies outside the two airfoils)")
print("  max camber ", seg.max_camber_cp, " (held at the root value inboard of the first station)")
rc = 1 if seg.get_cp_CL(a, z, z)[0] > 0.53795+1e-6 else 0
try:
    seg = make([[0.0, "NACA_2410"], [0.8, "NACA_0010"]])
    print("stations 0.0 .. 0.8; CL", seg.get_cp_CL(a, z, z))
except Exception as e:
    print("stations 0.0 .. 0.8 ->", repr(e)); rc = 1
sys.exit(rc)
