"""Aside 3 (unmodified tree): connect_to "location" - documented: May be "root" or "tip".  Any other value is
silently treated as "tip".  Expected: exception.  Exit 1 = accepted."""
import copy, os, sys, warnings
import numpy as np
import machupX as MX
warnings.simplefilter("ignore")

AIRFOILS = {"NACA_0010": {"type": "linear", "aL0": 0.0, "CLa": 6.4336, "CmL0": 0.0, "Cma": 0.0,
                          "CD0": 0.00513, "CD1": 0.0, "CD2": 0.0984, "geometry": {"NACA": "0010"}}}

def airplane():
    return {"CG": [0.0, 0.0, 0.0], "weight": 50.0,
            "controls": {"elevator": {"is_symmetric": True}},
            "airfoils": copy.deepcopy(AIRFOILS),
            "wings": {
                "main_wing": {"ID": 1, "side": "both", "is_main": True, "semispan": 4.0, "chord": 1.0,
                              "airfoil": "NACA_0010", "grid": {"N": 12}},
                "h_stab": {"ID": 2, "side": "both", "is_main": False,
                           "connect_to": {"ID": 1, "location": "root", "dx": -3.0},
                           "semispan": 1.5, "chord": 0.6, "airfoil": "NACA_0010",
                           "control_surface": {"chord_fraction": 0.4, "control_mixing": {"elevator": 1.0}},
                           "grid": {"N": 8}}}}

def scene(solver_type="nonlinear", with_aircraft=True, plane=None):
    s = MX.Scene({"solver": {"type": solver_type}, "units": "English", "scene": {}})
    if with_aircraft:
        s.add_aircraft("plane", plane if plane is not None else airplane(), state={"velocity": 100.0, "alpha": 3.0})
    return s

OUT = os.path.join(os.path.dirname(os.path.abspath(__file__)), "out")
os.makedirs(OUT, exist_ok=True)

def FL(loc):
    p = airplane(); p["wings"]["h_stab"]["connect_to"]["location"] = loc
    return scene(plane=p).solve_forces()["plane"]["total"]["FL"]
print("location 'root' -> FL = %r" % FL("root"))
print("location 'tip'  -> FL = %r" % FL("tip"))
bad = 0
for loc in ["Root", "centre", None]:
    try:
        print("location %-8r -> ACCEPTED, FL = %r   (expected: exception; equals the 'tip' result)" % (loc, FL(loc))); bad += 1
    except Exception as e:
        print("location %-8r -> raised %s: %s" % (loc, type(e).__name__, e))
sys.exit(1 if bad else 0)
