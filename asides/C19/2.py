"""Aside 2 (unmodified tree): solve_forces(initial_guess=...) "May be linear or previous".  Any other string
is not rejected: on the first solve it fails by accident (missing attribute), on every later solve it silently
re-uses the flow set-up of the PREVIOUS state and returns wrong loads.
Expected: exception (or at least the loads of the current state).  Exit 1 = silently wrong loads."""
import copy, os, sys, warnings
import numpy as np
import machupX as MX
warnings.simplefilter("ignore")

AIRFOILS = {"NACA_0010": {"type": "linear", "aL0": 0.0, "CLa": 6.4336, "CmL0": 0.0, "Cma": 0.0,
                          "CD0": 0.00513, "CD1": 0.0, "CD2": 0.0984, "geometry": {"NACA": "0010"}}}

def airplane():
    return {"CG": [0.0, 0.0, 0.0], "weight": 50.0,
            "controls": {"elevator": {"is_symmetric": True}},
            "airfoils": copy.deepcopy(AIRFOILS),
            "wings": {
                "main_wing": {"ID": 1, "side": "both", "is_main": True, "semispan": 4.0, "chord": 1.0,
                              "airfoil": "NACA_0010", "grid": {"N": 12}},
                "h_stab": {"ID": 2, "side": "both", "is_main": False,
                           "connect_to": {"ID": 1, "location": "root", "dx": -3.0},
                           "semispan": 1.5, "chord": 0.6, "airfoil": "NACA_0010",
                           "control_surface": {"chord_fraction": 0.4, "control_mixing": {"elevator": 1.0}},
                           "grid": {"N": 8}}}}

def scene(solver_type="nonlinear", with_aircraft=True, plane=None):
    s = MX.Scene({"solver": {"type": solver_type}, "units": "English", "scene": {}})
    if with_aircraft:
        s.add_aircraft("plane", plane if plane is not None else airplane(), state={"velocity": 100.0, "alpha": 3.0})
    return s

OUT = os.path.join(os.path.dirname(os.path.abspath(__file__)), "out")
os.makedirs(OUT, exist_ok=True)

bad = 0
for guess in ["Previous", "zero"]:
    s = scene()
    s.solve_forces()                                            # alpha = 3 deg
    s.set_aircraft_state({"velocity": 100.0, "alpha": 6.0})     # new state
    try:
        FL = s.solve_forces(initial_guess=guess)["plane"]["total"]["FL"]
    except Exception as e:
        print("initial_guess=%r -> raised %s: %s" % (guess, type(e).__name__, e)); continue
    s2 = scene(); s2.set_aircraft_state({"velocity": 100.0, "alpha": 6.0})
    FL_ref = s2.solve_forces()["plane"]["total"]["FL"]
    print("initial_guess=%r, second solve at alpha 6 -> ACCEPTED, FL = %r ; correct FL at alpha 6 = %r   (expected: exception)" % (guess, FL, FL_ref))
    bad += 1
sys.exit(1 if bad else 0)
