"""Aside 6 (unmodified tree): pitch_trim / pitch_trim_using_orientation ignore the "aircraft" argument when the
scene holds a single aircraft, so a misspelt aircraft name is not noticed (the state setters do reject it).
Expected: exception (KeyError as in set_aircraft_state).  Exit 1 = trimmed the other aircraft."""
import copy, os, sys, warnings
import numpy as np
import machupX as MX
warnings.simplefilter("ignore")

AIRFOILS = {"NACA_0010": {"type": "linear", "aL0": 0.0, "CLa": 6.4336, "CmL0": 0.0, "Cma": 0.0,
                          "CD0": 0.00513, "CD1": 0.0, "CD2": 0.0984, "geometry": {"NACA": "0010"}}}

def airplane():
    return {"CG": [0.0, 0.0, 0.0], "weight": 50.0,
            "controls": {"elevator": {"is_symmetric": True}},
            "airfoils": copy.deepcopy(AIRFOILS),
            "wings": {
                "main_wing": {"ID": 1, "side": "both", "is_main": True, "semispan": 4.0, "chord": 1.0,
                              "airfoil": "NACA_0010", "grid": {"N": 12}},
                "h_stab": {"ID": 2, "side": "both", "is_main": False,
                           "connect_to": {"ID": 1, "location": "root", "dx": -3.0},
                           "semispan": 1.5, "chord": 0.6, "airfoil": "NACA_0010",
                           "control_surface": {"chord_fraction": 0.4, "control_mixing": {"elevator": 1.0}},
                           "grid": {"N": 8}}}}

def scene(solver_type="nonlinear", with_aircraft=True, plane=None):
    s = MX.Scene({"solver": {"type": solver_type}, "units": "English", "scene": {}})
    if with_aircraft:
        s.add_aircraft("plane", plane if plane is not None else airplane(), state={"velocity": 100.0, "alpha": 3.0})
    return s

OUT = os.path.join(os.path.dirname(os.path.abspath(__file__)), "out")
os.makedirs(OUT, exist_ok=True)

bad = 0
try:
    scene().set_aircraft_state({"velocity": 100.0, "alpha": 2.0}, aircraft="plan")
    print("set_aircraft_state(aircraft='plan') -> ACCEPTED"); bad += 1
except Exception as e:
    print("set_aircraft_state(aircraft='plan')          -> raised %s: %s" % (type(e).__name__, e))
for fn in ["pitch_trim", "pitch_trim_using_orientation"]:
    try:
        r = getattr(scene(), fn)(aircraft="plan")
        print("%-44s -> ACCEPTED, returned %r   (expected: exception)" % (fn+"(aircraft='plan')", r)); bad += 1
    except Exception as e:
        print("%-44s -> raised %s: %s" % (fn+"(aircraft='plan')", type(e).__name__, e))
sys.exit(1 if bad else 0)
