"""Aside 4 (unmodified tree): file extensions are tested with a substring test (".csv" in filename), so a
wrong extension that merely CONTAINS the right one is accepted; export_pylot_model (documented: Must be ".json")
and solve_forces(filename=...) do not test at all.  Expected: exception.  Exit 1 = accepted."""
import copy, os, sys, warnings
import numpy as np
import machupX as MX
warnings.simplefilter("ignore")

AIRFOILS = {"NACA_0010": {"type": "linear", "aL0": 0.0, "CLa": 6.4336, "CmL0": 0.0, "Cma": 0.0,
                          "CD0": 0.00513, "CD1": 0.0, "CD2": 0.0984, "geometry": {"NACA": "0010"}}}

def airplane():
    return {"CG": [0.0, 0.0, 0.0], "weight": 50.0,
            "controls": {"elevator": {"is_symmetric": True}},
            "airfoils": copy.deepcopy(AIRFOILS),
            "wings": {
                "main_wing": {"ID": 1, "side": "both", "is_main": True, "semispan": 4.0, "chord": 1.0,
                              "airfoil": "NACA_0010", "grid": {"N": 12}},
                "h_stab": {"ID": 2, "side": "both", "is_main": False,
                           "connect_to": {"ID": 1, "location": "root", "dx": -3.0},
                           "semispan": 1.5, "chord": 0.6, "airfoil": "NACA_0010",
                           "control_surface": {"chord_fraction": 0.4, "control_mixing": {"elevator": 1.0}},
                           "grid": {"N": 8}}}}

def scene(solver_type="nonlinear", with_aircraft=True, plane=None):
    s = MX.Scene({"solver": {"type": solver_type}, "units": "English", "scene": {}})
    if with_aircraft:
        s.add_aircraft("plane", plane if plane is not None else airplane(), state={"velocity": 100.0, "alpha": 3.0})
    return s

OUT = os.path.join(os.path.dirname(os.path.abspath(__file__)), "out")
os.makedirs(OUT, exist_ok=True)

import json
bad = 0
def attempt(label, fn, path):
    global bad
    try:
        fn()
        print("%-52s -> ACCEPTED, file written: %s   (expected: exception)" % (label, os.path.exists(path))); bad += 1
    except Exception as e:
        print("%-52s -> raised %s: %s" % (label, type(e).__name__, str(e)[:70]))
p = lambda n: os.path.join(OUT, n)
attempt("distributions(filename='dist.txt')", lambda: scene().distributions(filename=p("dist.txt")), p("dist.txt"))
attempt("distributions(filename='dist.csv.txt')", lambda: scene().distributions(filename=p("dist.csv.txt")), p("dist.csv.txt"))
attempt("distributions(filename='dist.csvx')", lambda: scene().distributions(filename=p("dist.csvx")), p("dist.csvx"))
os.makedirs(p("run.csv_files"), exist_ok=True)
attempt("distributions(filename='run.csv_files/dist.txt')", lambda: scene().distributions(filename=p("run.csv_files/dist.txt")), p("run.csv_files/dist.txt"))
attempt("export_stl(filename='model.stl.txt')", lambda: scene().export_stl(filename=p("model.stl.txt"), section_resolution=10), p("model.stl.txt"))
attempt("export_vtk(filename='model.vtk.txt')", lambda: scene().export_vtk(filename=p("model.vtk.txt"), section_resolution=10), p("model.vtk.txt"))
attempt("export_pylot_model(filename='model.txt')", lambda: scene().export_pylot_model(filename=p("model.txt"), velocity=100.0), p("model.txt"))
# the same substring test on the input side
with open(p("plane.json.txt"), "w") as f: json.dump(airplane(), f)
def load_wrong_ext():
    s = scene(with_aircraft=False); s.add_aircraft("plane", p("plane.json.txt"), state={"velocity": 100.0, "alpha": 3.0})
    print("    FL = %r" % s.solve_forces()["plane"]["total"]["FL"])
attempt("add_aircraft('plane', 'plane.json.txt')", load_wrong_ext, p("plane.json.txt"))
sys.exit(1 if bad else 0)
