"""Aside 1 (unmodified tree): an unknown solver type is only rejected by accident (a missing attribute), and a
harmless earlier call to display_wireframe() creates that attribute - then the first solve silently returns the
zero-circulation loads.  Documented: solver type "Can be linear, nonlinear, or scipy_fsolve".
Expected: exception.  Exit 1 = loads were returned."""
import copy, os, sys, warnings
import numpy as np
import machupX as MX
warnings.simplefilter("ignore")

AIRFOILS = {"NACA_0010": {"type": "linear", "aL0": 0.0, "CLa": 6.4336, "CmL0": 0.0, "Cma": 0.0,
                          "CD0": 0.00513, "CD1": 0.0, "CD2": 0.0984, "geometry": {"NACA": "0010"}}}

def airplane():
    return {"CG": [0.0, 0.0, 0.0], "weight": 50.0,
            "controls": {"elevator": {"is_symmetric": True}},
            "airfoils": copy.deepcopy(AIRFOILS),
            "wings": {
                "main_wing": {"ID": 1, "side": "both", "is_main": True, "semispan": 4.0, "chord": 1.0,
                              "airfoil": "NACA_0010", "grid": {"N": 12}},
                "h_stab": {"ID": 2, "side": "both", "is_main": False,
                           "connect_to": {"ID": 1, "location": "root", "dx": -3.0},
                           "semispan": 1.5, "chord": 0.6, "airfoil": "NACA_0010",
                           "control_surface": {"chord_fraction": 0.4, "control_mixing": {"elevator": 1.0}},
                           "grid": {"N": 8}}}}

def scene(solver_type="nonlinear", with_aircraft=True, plane=None):
    s = MX.Scene({"solver": {"type": solver_type}, "units": "English", "scene": {}})
    if with_aircraft:
        s.add_aircraft("plane", plane if plane is not None else airplane(), state={"velocity": 100.0, "alpha": 3.0})
    return s

OUT = os.path.join(os.path.dirname(os.path.abspath(__file__)), "out")
os.makedirs(OUT, exist_ok=True)

os.environ.setdefault("MPLBACKEND", "Agg")
import matplotlib; matplotlib.use("Agg")

bad = 0
for solver_type in ["Nonlinear", "newton"]:
    # (a) plain: load + first solve
    try:
        FM = scene(solver_type).solve_forces()
        print("type %-10r plain first solve        -> ACCEPTED, FL = %r" % (solver_type, FM["plane"]["total"]["FL"])); bad += 1
    except Exception as e:
        print("type %-10r plain first solve        -> raised %s: %s" % (solver_type, type(e).__name__, e))
    # (b) a wireframe picture is drawn before the first solve
    s = scene(solver_type)
    s.display_wireframe(filename=os.path.join(OUT, "wireframe.png"))
    try:
        FM = s.solve_forces()
        t = FM["plane"]["total"]
        print("type %-10r wireframe, then first solve -> ACCEPTED, FL = %r, FD = %r   (expected: exception)" % (solver_type, t["FL"], t["FD"])); bad += 1
    except Exception as e:
        print("type %-10r wireframe, then first solve -> raised %s: %s" % (solver_type, type(e).__name__, e))
ref = scene("nonlinear").solve_forces()["plane"]["total"]
print("reference (type 'nonlinear'): FL = %r, FD = %r" % (ref["FL"], ref["FD"]))
sys.exit(1 if bad else 0)
