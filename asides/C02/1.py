"""Aside 1 (unmodified tree): with a density FIELD ("rho" given as a 4-column array, a documented alternative)
the coefficients reported by solve_forces() are 1-element numpy arrays instead of numbers, and
solve_forces(filename=...) crashes while writing them.

Cause: Scene._integrate_forces_and_moments takes the reference density from self._get_density(p_bar); the
field interpolator (scipy LinearNDInterpolator) returns shape (1,) for a single point, so non_dim_inv and
every coefficient become arrays.  The dimensional values are floats.  Density profile / "standard" / constant
are unaffected.
"""
import sys, os, tempfile, warnings
import numpy as np
import machupX as MX
warnings.simplefilter("ignore")

field = [[x, y, z, 0.0023769*(1.0+2.0e-5*z)] for x in (-500.0, 500.0) for y in (-500.0, 500.0) for z in (-3000.0, 100.0)]
airplane = {
    "CG": [0, 0, 0], "weight": 10.0,
    "airfoils": {"sec": {"type": "linear", "aL0": -0.03, "CLa": 6.2, "CmL0": -0.05, "Cma": 0.0, "CD0": 0.006, "CD1": 0.0, "CD2": 0.01, "geometry": {"NACA": "2410"}}},
    "wings": {"wing": {"ID": 1, "side": "both", "is_main": True, "semispan": 3.0, "chord": 1.0, "airfoil": "sec", "grid": {"N": 8}}},
}
scene = MX.Scene({"scene": {"atmosphere": {"rho": field}}})
scene.add_aircraft("plane", airplane, state={"position": [0.0, 0.0, -1000.0], "velocity": 100.0, "alpha": 4.0})
FM = scene.solve_forces()
CL, FL = FM["plane"]["total"]["CL"], FM["plane"]["total"]["FL"]
print("total FL:", repr(FL))
print("total CL:", repr(CL))
bad = not isinstance(CL, float)
out = os.path.join(tempfile.mkdtemp(), "forces.json")
try:
    scene.solve_forces(filename=out)
    print("solve_forces(filename=...) wrote", out)
except TypeError as e:
    print("solve_forces(filename=...) raised TypeError:", e)
    bad = True
if bad:
    print("EXPECTED: every coefficient is a float equal to its dimensional counterpart / (0.5 rho V^2 S) and the report can be exported")
    sys.exit(1)
sys.exit(0)
