"""Aside 3 (unmodified tree): with "solver": {"type": "linear"} the section lift coefficient listed by
distributions() is not the lift coefficient of the listed section state.

distributions() returns, per section, alpha, section_aL0 and section_CL.  For a linear airfoil
CL = CLa*(alpha - aL0), so the three columns must agree.  With the nonlinear solver they do; with the
linear solver "alpha" is recomputed from the solved circulation during the force integration while
"section_CL" is left at the first estimate made from the freestream (before any induced velocity), so the
columns contradict each other - and q*area*section_CL is far from the lift rho*V*circ*dl actually integrated.
"""
import sys, warnings
import numpy as np
import machupX as MX
warnings.simplefilter("ignore")

CLA, AL0 = 6.2, -0.03
airplane = {
    "CG": [0, 0, 0], "weight": 10.0,
    "airfoils": {"sec": {"type": "linear", "aL0": AL0, "CLa": CLA, "CmL0": -0.05, "Cma": 0.0, "CD0": 0.006, "CD1": 0.0, "CD2": 0.01, "geometry": {"NACA": "2410"}}},
    "wings": {"wing": {"ID": 1, "side": "both", "is_main": True, "semispan": 3.0, "chord": 1.0, "airfoil": "sec", "grid": {"N": 10}}},
}
worst = {}
for solver in ["nonlinear", "linear"]:
    scene = MX.Scene({"solver": {"type": solver}, "scene": {}})
    scene.add_aircraft("plane", airplane, state={"velocity": 100.0, "alpha": 5.0})
    scene.solve_forces()
    d = scene.distributions()["plane"]["wing_right"]
    alpha = np.array(d["alpha"]); CL = np.array(d["section_CL"]); aL0 = np.array(d["section_aL0"])
    expected = CLA*(alpha-aL0)
    worst[solver] = np.max(np.abs(CL-expected))
    print("{0:<10} section_CL listed     : {1}".format(solver, np.array2string(CL[:5], precision=4)))
    print("{0:<10} CLa*(alpha-aL0) listed : {1}   max |diff| over the semispan {2:.2e}".format("", np.array2string(expected[:5], precision=4), worst[solver]))
if worst["linear"] > 1e-6:
    print("INCONSISTENT: with the linear solver section_CL is the freestream estimate, not the coefficient at the reported alpha")
    sys.exit(1)
sys.exit(0)
