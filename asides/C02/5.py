"""Aside 5 (unmodified tree): the option spelled "nondimensional" - the spelling used by the example in
docs/source/creating_input_files.md ("run": {"solve_forces": {"dimensional": false, "nondimensional": false}})
and by Scene._determine_state_derivs itself (solve_forces(nondimensional=False, ...)) - is silently ignored:
only "non_dimensional" is read.  A user following the documented example gets coefficients although none
were requested ("only the requested ... dimensional kinds appear").
"""
import sys, warnings
import machupX as MX
warnings.simplefilter("ignore")
airplane = {
    "CG": [0, 0, 0], "weight": 10.0,
    "airfoils": {"sec": {"type": "linear", "aL0": -0.03, "CLa": 6.2, "geometry": {"NACA": "2410"}}},
    "wings": {"wing": {"ID": 1, "side": "both", "is_main": True, "semispan": 3.0, "chord": 1.0, "airfoil": "sec", "grid": {"N": 6}}},
}
scene = MX.Scene({"scene": {}})
scene.add_aircraft("plane", airplane, state={"velocity": 100.0, "alpha": 4.0})
FM = scene.solve_forces(dimensional=True, nondimensional=False)      # spelling of the documentation example
keys = sorted(FM["plane"]["total"].keys())
print("solve_forces(dimensional=True, nondimensional=False) ->", keys)
coefs = [k for k in keys if k.startswith("C")]
FM2 = scene.solve_forces(dimensional=True, non_dimensional=False)
print("solve_forces(dimensional=True, non_dimensional=False) ->", sorted(FM2["plane"]["total"].keys()))
if coefs:
    print("EXPECTED: no coefficients; got", coefs)
    sys.exit(1)
sys.exit(0)
