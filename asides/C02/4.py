"""Aside 4 (unmodified tree): with the documented solver option "use_total_velocity": false the parasitic drag
of a section is NOT applied along the local velocity that distributions() reports, but along the undisturbed
translational freestream (induced velocity AND the velocity due to the aircraft's rotation are both left out,
in direction and in dynamic pressure).  C02 as worded ("parasitic drag along the local velocity") therefore
only holds for the default value of that option.

Flat, unswept rectangular wing: dl = (0, area/chord, 0); the viscous part of each section force is
F_section - rho*circ*(v x dl), and its direction is compared with the reported local velocity (u,v,w).
"""
import sys, warnings
import numpy as np
import machupX as MX
warnings.simplefilter("ignore")
RHO = 0.0023769
airplane = {
    "CG": [0, 0, 0], "weight": 10.0,
    "airfoils": {"sec": {"type": "linear", "aL0": -0.03, "CLa": 6.2, "CmL0": -0.05, "Cma": 0.0, "CD0": 0.02, "CD1": 0.0, "CD2": 0.01, "geometry": {"NACA": "2410"}}},
    "wings": {"wing": {"ID": 1, "side": "both", "is_main": True, "semispan": 4.0, "chord": 1.0, "airfoil": "sec", "grid": {"N": 8}}},
}
worst = {}
for flag in [True, False]:
    scene = MX.Scene({"solver": {"use_total_velocity": flag}, "scene": {"atmosphere": {"rho": RHO}}})
    scene.add_aircraft("plane", airplane, state={"velocity": 60.0, "alpha": 6.0, "angular_rates": [1.0, 0.0, 0.0]})
    scene.solve_forces()
    d = scene.distributions()["plane"]["wing_right"]
    v = np.array([d["u"], d["v"], d["w"]]).T
    dl = np.zeros_like(v); dl[:, 1] = np.array(d["area"])/np.array(d["chord"])
    F = np.array([d["Fx"], d["Fy"], d["Fz"]]).T
    F_visc = F-(RHO*np.array(d["circ"]))[:, None]*np.cross(v, dl)
    cosang = np.einsum('ij,ij->i', F_visc, v)/np.linalg.norm(F_visc, axis=1)/np.linalg.norm(v, axis=1)
    ang = np.degrees(np.arccos(np.clip(cosang, -1, 1)))
    worst[flag] = np.max(ang)
    print("use_total_velocity={0!s:<5}: angle between section drag and reported local velocity, deg: {1}".format(flag, np.array2string(ang, precision=3)))
if worst[False] > 1e-3:
    print("EXPECTED (C02 as worded): 0 deg for every section; observed up to {0:.2f} deg with use_total_velocity=false".format(worst[False]))
    sys.exit(1)
sys.exit(0)
