"""Aside 2 (unmodified tree): the CSV written by distributions(filename=...) truncates aircraft and wing
segment names to 18 characters (numpy dtype "U18" in Scene.distributions), so two halves of a wing whose
name is longer than 12 characters get the SAME label and the per-section rows in the file can no longer be
attributed to the segments that the returned dictionary and solve_forces(report_by_segment=True) use.
"""
import sys, os, csv, tempfile, warnings
import numpy as np
import machupX as MX
warnings.simplefilter("ignore")

airplane = {
    "CG": [0, 0, 0], "weight": 10.0,
    "airfoils": {"sec": {"type": "linear", "aL0": -0.03, "CLa": 6.2, "CmL0": -0.05, "Cma": 0.0, "CD0": 0.006, "CD1": 0.0, "CD2": 0.01, "geometry": {"NACA": "2410"}}},
    "wings": {
        "main_wing": {"ID": 1, "side": "both", "is_main": True, "semispan": 3.0, "chord": 1.0, "airfoil": "sec", "grid": {"N": 6}},
        "horizontal_stabilizer": {"ID": 2, "side": "both", "is_main": False, "connect_to": {"ID": 1, "location": "root", "dx": -3.0}, "semispan": 1.0, "chord": 0.5, "airfoil": "sec", "grid": {"N": 4}},
    },
}
scene = MX.Scene({"scene": {}})
scene.add_aircraft("research_aircraft_no_1", airplane, state={"velocity": 100.0, "alpha": 4.0, "beta": 5.0})
FM = scene.solve_forces(report_by_segment=True, non_dimensional=False)
out = os.path.join(tempfile.mkdtemp(), "dist.csv")
dist = scene.distributions(filename=out)

rows = list(csv.reader(open(out)))
header = [h.strip() for h in rows[0]]
iFy = header.index("Fy")
from_file = {}
for r in rows[1:]:
    key = (r[0].strip(), r[1].strip())
    from_file[key] = from_file.get(key, 0.0)+float(r[iFy])
print("segments in the returned dictionary :", list(dist["research_aircraft_no_1"].keys()))
print("(aircraft, segment) labels in the CSV:", sorted(from_file.keys()))
bad = False
for seg in dist["research_aircraft_no_1"]:
    rep = FM["research_aircraft_no_1"]["inviscid"]["Fy"][seg]+FM["research_aircraft_no_1"]["viscous"]["Fy"][seg]
    got = from_file.get(("research_aircraft_no_1", seg))
    print("  {0:<28} solve_forces Fy {1:>10.5f}   sum of CSV rows labelled so: {2}".format(seg, rep, "none" if got is None else "{0:.5f}".format(got)))
    if got is None or abs(got-rep) > 1e-8:
        bad = True
if bad:
    print("EXPECTED: the rows of the CSV carry the full aircraft / segment names and sum to the per-segment loads")
    sys.exit(1)
sys.exit(0)
