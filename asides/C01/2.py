"""Aside 2 (unmodified tree): SolverNotConvergedError is raised for an iterate that IS converged.

The Newton loop tests the residual of the previous iterate, applies one more update and only then looks at the
iteration counter.  When the counter reaches "max_iterations" it raises unconditionally - also when the residual
it has just recomputed (and reports as "final error") is far below the configured convergence threshold.
So "max_iterations": n raises although the n-th iterate satisfies the tolerance; n+1 is needed to return it.

C01: "If the iteration limit is reached INSTEAD [of convergence], SolverNotConvergedError is raised".
Here convergence and the limit coincide; the exception carries final_error < convergence.
Exit 0: no such false alarm, 1: false alarm observed.
"""
import sys
import machupX as MX

airplane = {
    "CG": [0.0, 0.0, 0.0], "weight": 50.0,
    "airfoils": {"af": {"type": "linear", "aL0": -0.0368, "CLa": 6.1976, "CmL0": -0.0525, "Cma": 0.0326, "CD0": 0.00569, "CD1": -0.0045, "CD2": 0.0104,
                        "geometry": {"NACA": "2410"}}},
    "wings": {"main_wing": {"ID": 1, "side": "both", "is_main": True, "semispan": 4.0, "chord": 1.0, "airfoil": "af", "grid": {"N": 12}}}
}
tol = 1e-10
bad = False
for n in range(1, 8):
    scene = MX.Scene({"solver": {"type": "nonlinear", "convergence": tol, "max_iterations": n}})
    scene.add_aircraft("plane", airplane, state={"velocity": 100.0, "alpha": 3.0, "beta": 1.0})
    try:
        FM = scene.solve_forces()
        print("max_iterations = {0}: returned, FL = {1:.9f}".format(n, FM["plane"]["total"]["FL"]))
    except MX.SolverNotConvergedError as e:
        flag = ""
        if e.final_error <= tol:
            flag = "   <-- raised although final error <= convergence ({0:g})".format(tol)
            bad = True
        print("max_iterations = {0}: SolverNotConvergedError, final error {1:.3e}{2}".format(n, e.final_error, flag))
sys.exit(1 if bad else 0)
