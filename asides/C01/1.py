"""Aside 1 (unmodified tree): the default convergence threshold (1e-10) is an ABSOLUTE bound on the norm of a
dimensional residual (lift/(rho/2), i.e. V^2*CL*dS).  For an aircraft of ordinary full-scale size the round-off
floor of that residual lies above 1e-10, so a perfectly well-posed case with every option at its default raises
SolverNotConvergedError after 100 iterations.

C01 demands: "For well-posed cases - attached flow at small angles, no stall limit, ... documented solver
options - the solve does converge within the default iteration limit rather than raising."

Case: one rectangular wing of light-aircraft size (span 36 ft, chord 5 ft, 40 sections per side, linear airfoil
without CL_max), V = 200 ft/s, alpha = 3 deg, default solver settings.
Exit status 0: converged as demanded, 1: raised (property violated on the unmodified tree).
"""
import sys
import warnings
import numpy as np
import machupX as MX


# ----------------------------------------------------------------------------------------------
# Independent evaluation of the lifting-line equation (textbook formulas, nothing taken from the solver
# except geometry, aircraft state, airfoil objects and the reported circulation)
# ----------------------------------------------------------------------------------------------
def rot_body_to_earth(q):
    # Rotation matrix taking body-fixed components to Earth-fixed components (Phillips, Mechanics of Flight)
    e0, ex, ey, ez = np.asarray(q, dtype=float)/np.linalg.norm(q)   # the orientation the quaternion stands for
    return np.array([[ex*ex+e0*e0-ey*ey-ez*ez, 2*(ex*ey-ez*e0), 2*(ex*ez+ey*e0)],
                     [2*(ex*ey+ez*e0), ey*ey+e0*e0-ex*ex-ez*ez, 2*(ey*ez-ex*e0)],
                     [2*(ex*ez-ey*e0), 2*(ey*ez+ex*e0), ez*ez+e0*e0-ex*ex-ey*ey]])


def seg_finite(A, B, P):
    # Velocity induced at P by a unit-strength straight vortex filament from A to B
    # (Phillips & Snyder form of the Biot-Savart law; regular for points on the extension of the filament)
    r1 = P-A
    r2 = P-B
    n1 = np.linalg.norm(r1)
    n2 = np.linalg.norm(r2)
    den = n1*n2*(n1*n2+np.dot(r1, r2))
    if n1 < 1e-14 or n2 < 1e-14 or n1*n2+np.dot(r1, r2) <= 1e-14*n1*n2:
        return np.zeros(3)
    return (n1+n2)*np.cross(r1, r2)/den/(4.0*np.pi)


def seg_semi_inf(A, u, P):
    # Velocity induced at P by a unit-strength filament starting at A and running to infinity along the unit vector u
    r = P-A
    n = np.linalg.norm(r)
    den = n*(n-np.dot(u, r))
    if den <= 1e-13:
        return np.zeros(3)
    return np.cross(u, r)/den/(4.0*np.pi)


def check_scene(scene, gamma=None, verbose=True):
    """Evaluates the lifting-line equation at every control point for the circulation reported by distributions().
    Returns the largest residual, the lift scale it has to be compared with, and the mismatch between the local
    velocities / angles of attack reported by distributions() and the independently computed ones."""
    N = scene._N
    dist = scene.distributions()

    # circulation, reported alpha and velocities as reported through the public API
    circ = np.zeros(N)
    alpha_rep = np.zeros(N)
    vel_rep_b = np.zeros((N, 3))
    k = 0
    for ap in scene._airplane_objects:
        for seg in ap.segments:
            d = dist[ap.name][seg.name]
            n = seg.N
            circ[k:k+n] = d["circ"]
            alpha_rep[k:k+n] = d["alpha"]
            vel_rep_b[k:k+n, 0] = d["u"]
            vel_rep_b[k:k+n, 1] = d["v"]
            vel_rep_b[k:k+n, 2] = d["w"]
            k += n
    if gamma is not None:
        circ = gamma

    PC = scene._PC
    v_loc = np.zeros((N, 3))       # freestream + rotation at control points (Earth frame)
    u_tr0 = np.zeros((N, 3))
    u_tr1 = np.zeros((N, 3))
    u_a = np.zeros((N, 3))
    u_n = np.zeros((N, 3))
    u_s = np.zeros((N, 3))
    dl = np.zeros((N, 3))
    Rs = []
    for ap, sl in zip(scene._airplane_objects, scene._airplane_slices):
        R = rot_body_to_earth(ap.q)
        Rs.append(R)
        n = sl.stop-sl.start
        wind_cp = np.array([scene._get_wind(PC[i]) for i in range(sl.start, sl.stop)]).reshape((n, 3))
        v_trans = -np.asarray(ap.v, dtype=float)
        w = np.asarray(ap.w, dtype=float)
        CG = np.asarray(ap.CG, dtype=float)
        for ii, i in enumerate(range(sl.start, sl.stop)):
            v_loc[i] = v_trans+wind_cp[ii]+R@(-np.cross(w, ap.PC[ii]-CG))
            j0 = v_trans+wind_cp[ii]+R@(-np.cross(w, ap.P0_joint[ii]-CG))
            j1 = v_trans+wind_cp[ii]+R@(-np.cross(w, ap.P1_joint[ii]-CG))
            u_tr0[i] = j0/np.linalg.norm(j0)
            u_tr1[i] = j1/np.linalg.norm(j1)
            if scene._use_swept_sections:
                u_a[i] = R@ap.u_a[ii]; u_n[i] = R@ap.u_n[ii]; u_s[i] = R@ap.u_s[ii]
            else:
                u_a[i] = R@ap.u_a_unswept[ii]; u_n[i] = R@ap.u_n_unswept[ii]; u_s[i] = R@ap.u_s_unswept[ii]
            dl[i] = R@(ap.P1[ii]-ap.P0[ii])
        if scene._constrain_vortex_sheet:
            z = R@np.array([0.0, 0.0, 1.0])
            for i in range(sl.start, sl.stop):
                for arr in (u_tr0, u_tr1):
                    t = arr[i]-np.dot(arr[i], z)*z
                    arr[i] = t/np.linalg.norm(t)

    # Induced velocities
    v_ind = np.zeros((N, 3))
    for i in range(N):
        for j in range(N):
            P0 = scene._P0[i, j]; P1 = scene._P1[i, j]
            P0j = scene._P0_joint[i, j]; P1j = scene._P1_joint[i, j]
            V = -seg_semi_inf(P0j, u_tr0[j], PC[i])          # incoming trailing filament
            V = V+seg_finite(P0j, P0, PC[i])                 # joint 0
            if i != j:
                V = V+seg_finite(P0, P1, PC[i])              # bound
            V = V+seg_finite(P1, P1j, PC[i])                 # joint 1
            V = V+seg_semi_inf(P1j, u_tr1[j], PC[i])         # outgoing trailing filament
            v_ind[i] += circ[j]*V
    v = v_loc+v_ind

    # Kutta-Joukowski lift over (rho/2)
    L_kj = 2.0*np.linalg.norm(np.cross(v, dl), axis=1)*circ

    # Section lift over (rho/2)
    va = np.einsum('ij,ij->i', v, u_a)
    vn = np.einsum('ij,ij->i', v, u_n)
    alpha = np.arctan2(vn, va)
    v_ip = v-np.einsum('ij,ij->i', v, u_s)[:, None]*u_s
    v_inf = np.zeros((N, 3))
    for ap, sl in zip(scene._airplane_objects, scene._airplane_slices):
        for i in range(sl.start, sl.stop):
            v_inf[i] = -np.asarray(ap.v, dtype=float)+scene._get_wind(PC[i])
    v_inf_ip = v_inf-np.einsum('ij,ij->i', v_inf, u_s)[:, None]*u_s
    if scene._use_in_plane:
        Vref = np.linalg.norm(v_ip, axis=1)
        Vinf_ref = np.linalg.norm(v_inf_ip, axis=1)
    else:
        Vref = np.linalg.norm(v, axis=1)
        Vinf_ref = np.linalg.norm(v_inf, axis=1)
    c_bar = scene._c_bar
    Re = Vref*c_bar/scene._nu
    M = Vref/scene._a
    CL = np.zeros(N)
    k = 0
    for ap in scene._airplane_objects:
        for seg in ap.segments:
            n = seg.N
            s = slice(k, k+n)
            CL[s] = seg.get_cp_CL(alpha[s], Re[s], M[s])
            if scene._use_swept_sections and np.any(np.abs(scene._section_sweep[s]) > 1e-12):
                CLa = seg.get_cp_CLa(alpha[s], Re[s], M[s])
                aL0 = scene._aL0[s]
                CL[s] += CLa*(aL0-aL0/np.cos(scene._section_sweep[s]))
            k += n
    if scene._use_total_velocity:
        L_sec = Vref**2*CL*scene._dS
    else:
        L_sec = Vinf_ref**2*CL*scene._dS

    res = L_kj-L_sec
    scale = max(np.max(np.abs(L_sec)), np.max(np.abs(L_kj)), 1e-300)

    # velocity reported by distributions, to the Earth frame
    vel_rep = np.zeros((N, 3))
    for R, sl in zip(Rs, scene._airplane_slices):
        vel_rep[sl] = (R@vel_rep_b[sl].T).T
    dv = np.max(np.linalg.norm(vel_rep-v, axis=1))
    da = np.max(np.abs(alpha_rep-alpha))
    out = {"max_res": float(np.max(np.abs(res))), "norm_res": float(np.linalg.norm(res)), "scale": float(scale), "rel": float(np.max(np.abs(res))/scale),
           "dv": float(dv), "dalpha": float(da), "worst": int(np.argmax(np.abs(res)))}
    if verbose:
        print("   LL-equation residual: max|R| = {max_res:.3e}  ||R|| = {norm_res:.3e}  (lift scale {scale:.3e}, relative {rel:.3e}); velocity mismatch {dv:.3e}; alpha mismatch {dalpha:.3e}".format(**out))
    return out


def make_scene(solver, semispan, chord, V):
    airplane = {
        "CG": [0.0, 0.0, 0.0], "weight": 2300.0,
        "airfoils": {"af": {"type": "linear", "aL0": -0.03, "CLa": 6.2, "CmL0": -0.05, "Cma": 0.0, "CD0": 0.006, "CD1": 0.0, "CD2": 0.01,
                            "geometry": {"NACA": "2410"}}},
        "wings": {"main_wing": {"ID": 1, "side": "both", "is_main": True, "semispan": semispan, "chord": chord, "airfoil": "af", "grid": {"N": 40}}}
    }
    scene = MX.Scene({"solver": solver, "units": "English", "scene": {}})
    scene.add_aircraft("plane", airplane, state={"velocity": V, "alpha": 3.0}, control_state={})
    return scene


if __name__ == "__main__":
    bad = False
    for semispan, chord, V in ((4.0, 1.0, 100.0), (18.0, 5.0, 200.0), (60.0, 20.0, 800.0)):
        print("semispan {0} ft, chord {1} ft, V = {2} ft/s, alpha = 3 deg, all solver settings default".format(semispan, chord, V))
        scene = make_scene({}, semispan, chord, V)
        try:
            FM = scene.solve_forces()
            print("   converged: FL = {0:.6f}".format(FM["plane"]["total"]["FL"]))
            check_scene(scene)
        except MX.SolverNotConvergedError as e:
            bad = True
            print("   expected: convergence (well-posed case);  observed: SolverNotConvergedError, final error {0:.3e} (threshold 1e-10)".format(e.final_error))
            # The same case with a threshold above the round-off floor: converges in a handful of iterations and the answer is exact to round-off
            scene2 = make_scene({"convergence": 1e-6}, semispan, chord, V)
            FM = scene2.solve_forces()
            r = check_scene(scene2, verbose=False)
            print("   with \"convergence\": 1e-6 it converges: FL = {0:.6f}; independent residual max|R| = {1:.3e} on a lift scale of {2:.3e} (relative {3:.1e})".format(
                FM["plane"]["total"]["FL"], r["max_res"], r["scale"], r["rel"]))
            print("   -> the final error of the default run relative to the lift scale is {0:.1e}: it sits at machine precision and can never reach 1e-10".format(e.final_error/r["scale"]))
    if bad:
        print("RESULT: well-posed default case raised SolverNotConvergedError (C01 convergence clause violated on the unmodified tree)")
        sys.exit(1)
    print("RESULT: all cases converged")
    sys.exit(0)
