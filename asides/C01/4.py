"""Aside 4 (unmodified tree): error policy for DatabaseBoundsError.  With set_err_state(database_bounds="warn")
or "ignore" the exception that the airfoil database throws inside the linear start is swallowed by
Scene._handle_error at the level of solve_forces(): the whole circulation solve is skipped, the force integration
throws again and is swallowed again, and solve_forces() returns an EMPTY dictionary, marks the scene as solved, and
a following distributions() dies with AttributeError.  Nothing tells the user that no lifting-line solution exists
(under "ignore" not even a warning) although not_converged is still 'raise'.

Expected (C01, error policy): either loads whose circulation solves the equations, or an exception / warning that
says the solve did not succeed.  Observed: {} and circulation identically zero.
Exit 0: expected behaviour, 1: empty result returned.
"""
import sys, io, contextlib, warnings
import numpy as np
import machupX as MX

airplane = {
    "CG": [0.0, 0.0, 0.0], "weight": 50.0,
    "airfoils": {"af": {"type": "database", "input_file": "test/NACA 2414.txt"}},
    "wings": {"main_wing": {"ID": 1, "side": "both", "is_main": True, "semispan": 4.0, "chord": 1.0, "airfoil": "af", "grid": {"N": 10}}}
}
bad = False
for policy in ("warn", "ignore"):
    scene = MX.Scene({"solver": {"type": "nonlinear"}})
    scene.add_aircraft("plane", airplane, state={"velocity": 100.0, "alpha": 40.0})   # far outside the alpha range of the database
    scene.set_err_state(database_bounds=policy)
    with warnings.catch_warnings(record=True) as caught, contextlib.redirect_stdout(io.StringIO()):
        warnings.simplefilter("always")
        FM = scene.solve_forces()
    print("database_bounds = {0!r}: solve_forces() returned {1!r}; warnings: {2}; max|circulation| = {3}; scene._solved = {4}".format(
        policy, FM, len(caught), np.max(np.abs(scene._gamma)), scene._solved))
    try:
        with contextlib.redirect_stdout(io.StringIO()):
            scene.distributions()
    except Exception as e:
        print("   distributions() afterwards: {0}: {1}".format(type(e).__name__, e))
    if FM == {}:
        bad = True
sys.exit(1 if bad else 0)
