"""Aside 3 (unmodified tree, borderline): the documented option "relaxation" combined with the default
"max_iterations" (100) and "convergence" (1e-10) makes well-posed cases raise.  With relaxation r the residual
shrinks by (1-r) per iteration, so about ln(1e-13)/ln(1-r) iterations are needed: 284 for r = 0.1, 135 for r = 0.2.

C01: "For well-posed cases ... documented solver options - the solve does converge within the default iteration
limit rather than raising."
Exit 0: all converge, 1: a well-posed case raised.
"""
import sys
import machupX as MX

airplane = {
    "CG": [0.0, 0.0, 0.0], "weight": 50.0,
    "airfoils": {"af": {"type": "linear", "aL0": -0.0368, "CLa": 6.1976, "CmL0": -0.0525, "Cma": 0.0326, "CD0": 0.00569, "CD1": -0.0045, "CD2": 0.0104,
                        "geometry": {"NACA": "2410"}}},
    "wings": {"main_wing": {"ID": 1, "side": "both", "is_main": True, "semispan": 4.0, "chord": 1.0, "airfoil": "af", "grid": {"N": 12}}}
}
bad = False
for r in (1.0, 0.5, 0.3, 0.2, 0.1):
    scene = MX.Scene({"solver": {"type": "nonlinear", "relaxation": r}})
    scene.add_aircraft("plane", airplane, state={"velocity": 100.0, "alpha": 3.0})
    try:
        FM = scene.solve_forces()
        print("relaxation = {0}: converged, FL = {1:.9f}".format(r, FM["plane"]["total"]["FL"]))
    except MX.SolverNotConvergedError as e:
        bad = True
        print("relaxation = {0}: SolverNotConvergedError after the default 100 iterations, final error {1:.3e}".format(r, e.final_error))
sys.exit(1 if bad else 0)
