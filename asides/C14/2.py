"""Aside 2 (unmodified tree): with the documented solver option "use_in_plane": false and a SWEPT wing,
the 'linear' solver does not approach the nonlinear solution as all angles tend to zero: the relative
difference stays at about 2 % (for 25 deg sweep) instead of shrinking proportionally to the angles.
With "match_machup_pro": true (other options at their defaults) the same happens with about 15 %.
For an unswept wing, and for the default options, the difference shrinks as the property demands.

Reason (reading _solve_linear): without the in-plane option the induced-angle term of the matrix is
V_inf*CLa*dS*(v_ji.u_n), but the nonlinear residual uses alpha = atan2(v_n, v_a) with v_a = V_inf*cos(sweep)
for swept sections, so the consistent linearisation has V_inf^2/v_a instead of V_inf.
"""
import sys, warnings
import numpy as np
import machupX as MX
warnings.simplefilter("ignore")


def airplane(eps, sweep):
    return {
        "CG": [0, 0, 0], "weight": 50.0,
        "reference": {"area": 8.0, "longitudinal_length": 1.0, "lateral_length": 8.0},
        "airfoils": {"af": {"type": "linear", "aL0": 0.0, "CLa": 6.4, "CmL0": 0.0, "Cma": 0.0, "CD0": 0.005, "CD1": 0.0, "CD2": 0.01,
                            "geometry": {"NACA": "0010"}}},
        "wings": {"main_wing": {"ID": 1, "side": "both", "is_main": True, "semispan": 4.0, "chord": 1.0, "sweep": sweep,
                                "twist": [[0.0, 2.0*eps], [1.0, -1.0*eps]], "airfoil": "af", "grid": {"N": 20}}},
    }


def loads(options, solver_type, eps, sweep):
    solver = dict(options); solver["type"] = solver_type
    scene = MX.Scene({"solver": solver, "scene": {}})
    scene.add_aircraft("plane", airplane(eps, sweep), state={"velocity": 100.0, "alpha": 4.0*eps, "beta": 2.0*eps})
    FM = scene.solve_forces()["plane"]["total"]
    return np.array([FM[k] for k in ["FL", "FS", "Mx", "My", "Mz"]])


bad = False
for options, sweep in [({}, 25.0), ({"use_in_plane": False}, 0.0), ({"use_in_plane": False}, 25.0), ({"match_machup_pro": True}, 25.0)]:
    rel = []
    for eps in [1.0, 0.5, 0.25, 0.125]:
        l, n = loads(options, "linear", eps, sweep), loads(options, "nonlinear", eps, sweep)
        rel.append(np.linalg.norm(l-n)/np.linalg.norm(n))
    ok = rel[0]/rel[-1] > 4.0
    bad = bad or not ok
    print("options {0!s:<28} sweep {1:>5.1f}:  relative |linear-nonlinear| for eps=1,1/2,1/4,1/8: {2}   -> {3}".format(
        options, sweep, "  ".join("{0:.2e}".format(r) for r in rel), "shrinks (ok)" if ok else "DOES NOT SHRINK"))
sys.exit(1 if bad else 0)
