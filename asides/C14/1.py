"""Aside 1 (unmodified tree): an unrecognised initial_guess string is accepted silently and the nonlinear
solver then runs on the flow set-up of the PREVIOUS state.

solve_forces() only looks for the exact strings 'linear' and 'previous'.  Anything else (here 'Previous',
a capitalisation slip) skips both the linear solver and the refresh of the state-dependent flow
quantities, so after a state change the loads of the old state come back, with no error or warning.
Expected: either the same converged loads as for 'linear'/'previous' (C14) or an error for the bad value.
"""
import sys, warnings
import machupX as MX
warnings.simplefilter("ignore")

airplane = {
    "CG": [0, 0, 0], "weight": 50.0,
    "reference": {"area": 8.0, "longitudinal_length": 1.0, "lateral_length": 8.0},
    "airfoils": {"af": {"type": "linear", "aL0": 0.0, "CLa": 6.4, "CmL0": 0.0, "Cma": 0.0, "CD0": 0.005, "CD1": 0.0, "CD2": 0.01,
                        "geometry": {"NACA": "0010"}}},
    "wings": {"main_wing": {"ID": 1, "side": "both", "is_main": True, "semispan": 4.0, "chord": 1.0, "airfoil": "af", "grid": {"N": 20}}},
}
def run(guess):
    scene = MX.Scene({"solver": {"type": "nonlinear"}, "scene": {}})
    scene.add_aircraft("plane", airplane, state={"velocity": 100.0, "alpha": 5.0})
    FL_old = scene.solve_forces()["plane"]["total"]["FL"]
    scene.set_aircraft_state({"velocity": 100.0, "alpha": -5.0})
    return FL_old, scene.solve_forces(initial_guess=guess)["plane"]["total"]["FL"]


out = {}
for guess in ["linear", "previous", "Previous", "zero"]:
    FL_old, out[guess] = run(guess)
print("FL at alpha=+5 (old state)            :", FL_old)
for k, v in out.items():
    print("FL at alpha=-5, initial_guess={0!r:<10}: {1}".format(k, v))
bad = abs(out["Previous"]-out["linear"]) > 1e-6*abs(out["linear"])
print("VIOLATED (silently wrong loads)" if bad else "ok")
sys.exit(1 if bad else 0)
