"""Aside 4 (unmodified tree, solver paths that FAIL where another path converges - outside the letter of C14,
which only speaks about converging solvers, but relevant to "the documentation promises"):
  a) "scipy_fsolve" with a database airfoil: fsolve's first trial steps take the sections out of the range of
     the database and DatabaseBoundsError aborts the solve at alpha = 6 deg, where the nonlinear solver converges
     without trouble.
  b) the documentation of "convergence" says it "can also be used to specify the 'xtol' argument" of fsolve;
     the argument is commented out in _solve_w_scipy, so the setting has no effect on that solver.
Run from the repository root (uses test/NACA 2414.txt).
"""
import sys, warnings
import machupX as MX
warnings.simplefilter("ignore")

airplane = {
    "CG": [0, 0, 0], "weight": 50.0,
    "reference": {"area": 8.0, "longitudinal_length": 1.0, "lateral_length": 8.0},
    "airfoils": {"af": {"type": "database", "input_file": "test/NACA 2414.txt"}},
    "wings": {"main_wing": {"ID": 1, "side": "both", "is_main": True, "semispan": 4.0, "chord": 1.0, "airfoil": "af", "grid": {"N": 20}}},
}
state = {"velocity": 100.0, "alpha": 6.0}


def make(solver):
    scene = MX.Scene({"solver": solver, "scene": {}})
    scene.add_aircraft("plane", airplane, state=state)
    return scene


print("nonlinear            FL =", make({"type": "nonlinear"}).solve_forces()["plane"]["total"]["FL"])
status = 0
try:
    print("scipy_fsolve         FL =", make({"type": "scipy_fsolve"}).solve_forces()["plane"]["total"]["FL"])
except Exception as e:
    print("scipy_fsolve         ->", type(e).__name__); status = 1
# b) "convergence" does not reach fsolve: identical results for very different settings
airplane["airfoils"]["af"] = {"type": "linear", "aL0": -0.03, "CLa": 6.2, "CmL0": -0.05, "Cma": 0.0, "CD0": 0.005, "CD1": 0.0, "CD2": 0.01,
                              "geometry": {"NACA": "2410"}}
a = make({"type": "scipy_fsolve", "convergence": 1e-2}).solve_forces()["plane"]["total"]["FL"]
b = make({"type": "scipy_fsolve", "convergence": 1e-13}).solve_forces()["plane"]["total"]["FL"]
print("scipy_fsolve, convergence 1e-2 : FL =", repr(a))
print("scipy_fsolve, convergence 1e-13: FL =", repr(b), "(identical: the option is ignored)" if a == b else "")
sys.exit(status)
