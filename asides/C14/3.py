"""Aside 3 (unmodified tree, minor): "max_iterations" is off by one.  If the nonlinear solver needs exactly
max_iterations iterations, SolverNotConvergedError is raised although the reported final error is already
below the convergence threshold (the cap is tested before the loop condition is re-evaluated).
Expected: a solve that reaches the threshold within max_iterations iterations is accepted.
"""
import sys, io, contextlib, warnings
import machupX as MX
warnings.simplefilter("ignore")

airplane = {
    "CG": [0, 0, 0], "weight": 50.0,
    "reference": {"area": 8.0, "longitudinal_length": 1.0, "lateral_length": 8.0},
    "airfoils": {"af": {"type": "linear", "aL0": 0.0, "CLa": 6.4, "CmL0": 0.0, "Cma": 0.0, "CD0": 0.005, "CD1": 0.0, "CD2": 0.01,
                        "geometry": {"NACA": "0010"}}},
    "wings": {"main_wing": {"ID": 1, "side": "both", "is_main": True, "semispan": 4.0, "chord": 1.0, "sweep": 20.0, "airfoil": "af", "grid": {"N": 20}}},
}


def make(max_iterations=None):
    solver = {"type": "nonlinear", "convergence": 1e-10}
    if max_iterations is not None:
        solver["max_iterations"] = max_iterations
    scene = MX.Scene({"solver": solver, "scene": {}})
    scene.add_aircraft("plane", airplane, state={"velocity": 100.0, "alpha": 5.0})
    return scene


buf = io.StringIO()
with contextlib.redirect_stdout(buf):
    make().solve_forces(verbose=True)
needed = len([l for l in buf.getvalue().splitlines() if l[:1].isdigit()])
print("iterations needed with the default cap:", needed)
bad = False
for cap in [needed, needed+1]:
    try:
        make(cap).solve_forces()
        print("max_iterations = {0}: converged".format(cap))
    except Exception as e:
        print("max_iterations = {0}: {1}: {2}".format(cap, type(e).__name__, e))
        bad = bad or (cap == needed and e.final_error < 1e-10)
sys.exit(1 if bad else 0)
