"""Aside 3: a table read from a .csv file (documented for chord_fraction, and via 'specified like
chord_fraction' for a control deflection) whose one column is written with integers (e.g. span 0 and 1, or
deflections 2 and 4) is read by genfromtxt as a structured array and the end-point check fails with
IndexError before the code that handles exactly this case (_build_getter_linear_f_of_span) is reached.
Expected: same result as the file written with decimal points."""
import sys, os
import warnings
import numpy as np
import machupX as MX

warnings.simplefilter("ignore")

AIRFOILS = {"NACA_0010": {"type": "linear", "aL0": 0.0, "CLa": 6.4336, "CmL0": 0.0, "Cma": 0.0,
                          "CD0": 0.00513, "CD1": 0.0, "CD2": 0.0984, "CL_max": 1.4,
                          "geometry": {"NACA": "0010"}}}

def make_scene(control_surface, side="both", controls=None, N=10, control_state=None):
    airplane = {
        "CG": [0, 0, 0], "weight": 50.0,
        "reference": {"area": 8.0, "longitudinal_length": 1.0, "lateral_length": 8.0},
        "controls": controls if controls is not None else {"ail": {"is_symmetric": False}, "flap": {"is_symmetric": True}},
        "airfoils": AIRFOILS,
        "wings": {"w": {"ID": 1, "side": side, "is_main": True, "semispan": 4.0, "airfoil": "NACA_0010",
                        "control_surface": control_surface, "grid": {"N": N}}}
    }
    scene = MX.Scene({"solver": {"type": "linear"}, "units": "English", "scene": {"atmosphere": {}}})
    scene.add_aircraft("p", airplane, state={"velocity": 100.0, "alpha": 2.0}, control_state=control_state or {})
    return scene

def flap_deg(scene):
    d = scene.distributions()["p"]
    return {k: np.round(np.degrees(v["delta_flap"]), 6) for k, v in d.items()}

here = os.path.dirname(os.path.abspath(__file__))
f_float = os.path.join(here, "aside3_defl_float.csv"); open(f_float, "w").write("0.3,2.0\n0.8,4.0\n")
f_int = os.path.join(here, "aside3_defl_int.csv");     open(f_int, "w").write("0.3,2\n0.8,4\n")
c_float = os.path.join(here, "aside3_cf_float.csv");   open(c_float, "w").write("0.0,0.1\n1.0,0.3\n")
c_int = os.path.join(here, "aside3_cf_int.csv");       open(c_int, "w").write("0,0.1\n1,0.3\n")

bad = False
cs = {"root_span": 0.3, "tip_span": 0.8, "chord_fraction": 0.2, "control_mixing": {"flap": 1.0}}
for label, path in [("deflection csv '0.3,2.0 / 0.8,4.0'", f_float), ("deflection csv '0.3,2 / 0.8,4'", f_int)]:
    scene = make_scene(cs)
    try:
        scene.set_aircraft_control_state({"flap": path})
        print(label, "->", flap_deg(scene)["w_right"])
    except Exception as e:
        bad = True
        print(label, "-> {0}: {1}".format(type(e).__name__, e))
for label, path in [("chord_fraction csv '0.0,0.1 / 1.0,0.3'", c_float), ("chord_fraction csv '0,0.1 / 1,0.3'", c_int)]:
    try:
        scene = make_scene({"root_span": 0.0, "tip_span": 1.0, "chord_fraction": path, "control_mixing": {"flap": 1.0}})
        print(label, "-> flap chord fractions", np.round(scene._airplanes["p"].wing_segments["w_right"]._cp_c_f, 4))
    except Exception as e:
        bad = True
        print(label, "-> {0}: {1}".format(type(e).__name__, e))
for p in (f_float, f_int, c_float, c_int):
    os.remove(p)
sys.exit(1 if bad else 0)
