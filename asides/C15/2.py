"""Aside 2: once a control has been set as a spanwise distribution (table, documented) or a function,
Scene.derivatives() / control_derivatives() fail, because the finite-difference step is added to the whole
recorded value (for a table: to the span column as well, so the end points no longer match root/tip span).
The control surfaces are also left in a perturbed state by the aborted call.
Expected: derivatives at the current state, control state unchanged afterwards."""
import sys, os
import warnings
import numpy as np
import machupX as MX

warnings.simplefilter("ignore")

AIRFOILS = {"NACA_0010": {"type": "linear", "aL0": 0.0, "CLa": 6.4336, "CmL0": 0.0, "Cma": 0.0,
                          "CD0": 0.00513, "CD1": 0.0, "CD2": 0.0984, "CL_max": 1.4,
                          "geometry": {"NACA": "0010"}}}

def make_scene(control_surface, side="both", controls=None, N=10, control_state=None):
    airplane = {
        "CG": [0, 0, 0], "weight": 50.0,
        "reference": {"area": 8.0, "longitudinal_length": 1.0, "lateral_length": 8.0},
        "controls": controls if controls is not None else {"ail": {"is_symmetric": False}, "flap": {"is_symmetric": True}},
        "airfoils": AIRFOILS,
        "wings": {"w": {"ID": 1, "side": side, "is_main": True, "semispan": 4.0, "airfoil": "NACA_0010",
                        "control_surface": control_surface, "grid": {"N": N}}}
    }
    scene = MX.Scene({"solver": {"type": "linear"}, "units": "English", "scene": {"atmosphere": {}}})
    scene.add_aircraft("p", airplane, state={"velocity": 100.0, "alpha": 2.0}, control_state=control_state or {})
    return scene

def flap_deg(scene):
    d = scene.distributions()["p"]
    return {k: np.round(np.degrees(v["delta_flap"]), 6) for k, v in d.items()}

cs = {"root_span": 0.3, "tip_span": 0.8, "chord_fraction": 0.2, "control_mixing": {"ail": 1.0, "flap": 0.5}}
bad = False
for label, val in [("table", [[0.3, 2.0], [0.8, 4.0]]), ("function", lambda s: 2.0 + 4.0*s)]:
    scene = make_scene(cs)
    scene.set_aircraft_control_state({"flap": val, "ail": 1.0})
    before = flap_deg(scene)
    try:
        d = scene.derivatives()
        print(label, ": derivatives OK, CL,dflap =", d["p"]["control"]["CL,dflap"])
    except Exception as e:
        bad = True
        print(label, ": derivatives() raised {0}: {1}".format(type(e).__name__, e))
    after = flap_deg(scene)
    for seg in before:
        print("   {0} delta_flap before: {1}".format(seg, before[seg]))
        print("   {0} delta_flap after : {1}{2}".format(seg, after[seg], "" if np.allclose(before[seg], after[seg]) else "   <-- not what was set"))
    print("   recorded control state after:", scene._airplanes["p"].current_control_state)
sys.exit(1 if bad else 0)
