"""Aside 1: a control input that is a numpy scalar (e.g. taken from np.arange / np.linspace(...).astype,
or a float32) or a (value, unit) tuple is rejected, although it is a plain number of degrees.
Expected: same deflection as for the Python number 4 / [0.1, "rad"].  Observed: ValueError."""
import sys, os
import warnings
import numpy as np
import machupX as MX

warnings.simplefilter("ignore")

AIRFOILS = {"NACA_0010": {"type": "linear", "aL0": 0.0, "CLa": 6.4336, "CmL0": 0.0, "Cma": 0.0,
                          "CD0": 0.00513, "CD1": 0.0, "CD2": 0.0984, "CL_max": 1.4,
                          "geometry": {"NACA": "0010"}}}

def make_scene(control_surface, side="both", controls=None, N=10, control_state=None):
    airplane = {
        "CG": [0, 0, 0], "weight": 50.0,
        "reference": {"area": 8.0, "longitudinal_length": 1.0, "lateral_length": 8.0},
        "controls": controls if controls is not None else {"ail": {"is_symmetric": False}, "flap": {"is_symmetric": True}},
        "airfoils": AIRFOILS,
        "wings": {"w": {"ID": 1, "side": side, "is_main": True, "semispan": 4.0, "airfoil": "NACA_0010",
                        "control_surface": control_surface, "grid": {"N": N}}}
    }
    scene = MX.Scene({"solver": {"type": "linear"}, "units": "English", "scene": {"atmosphere": {}}})
    scene.add_aircraft("p", airplane, state={"velocity": 100.0, "alpha": 2.0}, control_state=control_state or {})
    return scene

def flap_deg(scene):
    d = scene.distributions()["p"]
    return {k: np.round(np.degrees(v["delta_flap"]), 6) for k, v in d.items()}

cs = {"root_span": 0.3, "tip_span": 0.8, "chord_fraction": 0.2, "control_mixing": {"ail": 1.0, "flap": 0.5}}
scene = make_scene(cs)
scene.set_aircraft_control_state({"ail": 4})
print("python int 4        ->", flap_deg(scene)["w_right"])
bad = False
for label, val in [("np.int64(4)", np.int64(4)), ("np.arange(3,6)[1]", np.arange(3, 6)[1]), ("np.float32(4)", np.float32(4)),
                   ("np.float64(4) (control)", np.float64(4)), ("(0.1, 'rad') tuple", (0.1, "rad"))]:
    try:
        scene.set_aircraft_control_state({"ail": val})
        print("{0:<24} -> {1}".format(label, flap_deg(scene)["w_right"]))
    except Exception as e:
        bad = True
        print("{0:<24} -> {1}: {2}   (expected: accepted like the plain number)".format(label, type(e).__name__, e))
sys.exit(1 if bad else 0)
