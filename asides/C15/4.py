"""Aside 4: a control that appears in a surface's "control_mixing" but is not declared under the aircraft's
"controls" is treated differently depending on the side of the segment: on a right-hand segment it silently
moves the surface (although the aircraft does not record the control, so derivatives/trim restore it to
zero), on a left-hand (or mirrored) segment the same input raises KeyError.
Expected: one consistent behaviour (either the documented mapping on both sides or a clear input error)."""
import sys, os
import warnings
import numpy as np
import machupX as MX

warnings.simplefilter("ignore")

AIRFOILS = {"NACA_0010": {"type": "linear", "aL0": 0.0, "CLa": 6.4336, "CmL0": 0.0, "Cma": 0.0,
                          "CD0": 0.00513, "CD1": 0.0, "CD2": 0.0984, "CL_max": 1.4,
                          "geometry": {"NACA": "0010"}}}

def make_scene(control_surface, side="both", controls=None, N=10, control_state=None):
    airplane = {
        "CG": [0, 0, 0], "weight": 50.0,
        "reference": {"area": 8.0, "longitudinal_length": 1.0, "lateral_length": 8.0},
        "controls": controls if controls is not None else {"ail": {"is_symmetric": False}, "flap": {"is_symmetric": True}},
        "airfoils": AIRFOILS,
        "wings": {"w": {"ID": 1, "side": side, "is_main": True, "semispan": 4.0, "airfoil": "NACA_0010",
                        "control_surface": control_surface, "grid": {"N": N}}}
    }
    scene = MX.Scene({"solver": {"type": "linear"}, "units": "English", "scene": {"atmosphere": {}}})
    scene.add_aircraft("p", airplane, state={"velocity": 100.0, "alpha": 2.0}, control_state=control_state or {})
    return scene

def flap_deg(scene):
    d = scene.distributions()["p"]
    return {k: np.round(np.degrees(v["delta_flap"]), 6) for k, v in d.items()}

cs = {"root_span": 0.3, "tip_span": 0.8, "chord_fraction": 0.2, "control_mixing": {"flap": 1.0, "spoiler": 1.0}}
controls = {"flap": {"is_symmetric": True}}
results = {}
for side in ["right", "left", "both"]:
    try:
        scene = make_scene(cs, side=side, controls=controls)
        scene.set_aircraft_control_state({"flap": 1.0, "spoiler": 3.0})
        results[side] = "deflections " + str({k: v.tolist() for k, v in flap_deg(scene).items()}) + \
                        "  recorded state " + str(scene._airplanes["p"].current_control_state)
    except Exception as e:
        results[side] = "{0}: {1}".format(type(e).__name__, e)
    print("side = {0:<5} -> {1}".format(side, results[side]))
inconsistent = ("Error" in results["left"]) != ("Error" in results["right"])
sys.exit(1 if inconsistent else 0)
