"""Aside 6: a control-state setting that is rejected (here: a deflection table whose end points do not match the
surface's root/tip span -> IOError, as documented) is not atomic.  The aircraft already records the rejected
values, and the segment on which the error occurred is left with the partial sum of the controls processed so
far, still in degrees but stored where radians are expected (1 deg shows up as 57.3 deg), while the segments
later in the loop still carry the previous setting.  A caller that catches the error and carries on silently
computes with these deflections.
Expected: after a rejected setting the previous control state (here ail = 2 deg, flap = 0) is still in force."""
import sys, os
import warnings
import numpy as np
import machupX as MX

warnings.simplefilter("ignore")

AIRFOILS = {"NACA_0010": {"type": "linear", "aL0": 0.0, "CLa": 6.4336, "CmL0": 0.0, "Cma": 0.0,
                          "CD0": 0.00513, "CD1": 0.0, "CD2": 0.0984, "CL_max": 1.4,
                          "geometry": {"NACA": "0010"}}}

def make_scene(control_surface, side="both", controls=None, N=10, control_state=None):
    airplane = {
        "CG": [0, 0, 0], "weight": 50.0,
        "reference": {"area": 8.0, "longitudinal_length": 1.0, "lateral_length": 8.0},
        "controls": controls if controls is not None else {"ail": {"is_symmetric": False}, "flap": {"is_symmetric": True}},
        "airfoils": AIRFOILS,
        "wings": {"w": {"ID": 1, "side": side, "is_main": True, "semispan": 4.0, "airfoil": "NACA_0010",
                        "control_surface": control_surface, "grid": {"N": N}}}
    }
    scene = MX.Scene({"solver": {"type": "linear"}, "units": "English", "scene": {"atmosphere": {}}})
    scene.add_aircraft("p", airplane, state={"velocity": 100.0, "alpha": 2.0}, control_state=control_state or {})
    return scene

def flap_deg(scene):
    d = scene.distributions()["p"]
    return {k: np.round(np.degrees(v["delta_flap"]), 6) for k, v in d.items()}

cs = {"root_span": 0.3, "tip_span": 0.8, "chord_fraction": 0.2, "control_mixing": {"ail": 1.0, "flap": 0.5}}
scene = make_scene(cs)
scene.set_aircraft_control_state({"ail": 2.0})
before = flap_deg(scene)
try:
    scene.set_aircraft_control_state({"ail": 1.0, "flap": [[0.0, 2.0], [1.0, 4.0]]})   # end points 0..1 instead of 0.3..0.8
except IOError as e:
    print("rejected as documented:", e)
after = flap_deg(scene)
bad = False
for seg in before:
    same = np.allclose(before[seg], after[seg])
    bad |= not same
    print(seg, "before the rejected call:", before[seg])
    print(seg, "after  the rejected call:", after[seg], "" if same else "   <-- neither the old nor the new setting")
print("recorded control state:", scene._airplanes["p"].current_control_state, "(expected {'ail': 2.0, 'flap': 0.0})")
sys.exit(1 if bad else 0)
