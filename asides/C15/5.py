"""Aside 5 (minor): every other angular input goes through import_value and accepts a unit annotation, but
"saturation_angle" is read raw, so [20.0, "deg"] (or a value in "rad") raises TypeError.  The docs list it as a
float in degrees, so this is only an inconsistency.  Also minor: the "rad" factor is 57.29578, so a control input
of [1.0, "rad"] is applied as 57.29578 deg instead of 57.2957795 deg (4.9e-7 deg off)."""
import sys, os
import warnings
import numpy as np
import machupX as MX

warnings.simplefilter("ignore")

AIRFOILS = {"NACA_0010": {"type": "linear", "aL0": 0.0, "CLa": 6.4336, "CmL0": 0.0, "Cma": 0.0,
                          "CD0": 0.00513, "CD1": 0.0, "CD2": 0.0984, "CL_max": 1.4,
                          "geometry": {"NACA": "0010"}}}

def make_scene(control_surface, side="both", controls=None, N=10, control_state=None):
    airplane = {
        "CG": [0, 0, 0], "weight": 50.0,
        "reference": {"area": 8.0, "longitudinal_length": 1.0, "lateral_length": 8.0},
        "controls": controls if controls is not None else {"ail": {"is_symmetric": False}, "flap": {"is_symmetric": True}},
        "airfoils": AIRFOILS,
        "wings": {"w": {"ID": 1, "side": side, "is_main": True, "semispan": 4.0, "airfoil": "NACA_0010",
                        "control_surface": control_surface, "grid": {"N": N}}}
    }
    scene = MX.Scene({"solver": {"type": "linear"}, "units": "English", "scene": {"atmosphere": {}}})
    scene.add_aircraft("p", airplane, state={"velocity": 100.0, "alpha": 2.0}, control_state=control_state or {})
    return scene

def flap_deg(scene):
    d = scene.distributions()["p"]
    return {k: np.round(np.degrees(v["delta_flap"]), 6) for k, v in d.items()}

bad = False
try:
    scene = make_scene({"root_span": 0.3, "tip_span": 0.8, "chord_fraction": 0.2, "saturation_angle": [20.0, "deg"],
                        "control_mixing": {"flap": 1.0}})
    scene.set_aircraft_control_state({"flap": 30.0})
    print("saturation_angle [20, 'deg'] ->", flap_deg(scene)["w_right"])
except Exception as e:
    bad = True
    print("saturation_angle [20.0, 'deg'] -> {0}: {1}   (expected: clip at 20 deg)".format(type(e).__name__, e))

scene = make_scene({"chord_fraction": 0.2, "control_mixing": {"flap": 1.0}})
scene.set_aircraft_control_state({"flap": [1.0, "rad"]})
obs = np.degrees(scene.distributions()["p"]["w_right"]["delta_flap"][0])
print("flap = [1.0, 'rad'] -> observed {0:.10f} deg, expected {1:.10f} deg, diff {2:.2e}".format(obs, np.degrees(1.0), obs-np.degrees(1.0)))
sys.exit(1 if bad else 0)
