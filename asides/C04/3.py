"""Aside 3 (unmodified tree, symmetric - NOT a mirror asymmetry, listed for completeness): a one-sided segment
connected to the tip of a one-sided segment of the OTHER side (legal per the input documentation: "connect_to"
may name any other wing segment) makes Airplane.__init__ fail with IndexError when the parent has a y_offset,
or when a third segment hangs on the chain.  The segment is accepted by attach_wing_segment, but
_sort_segments_into_wings only adds a continuation to a lifting line if it is on the same side, so it ends up in no
lifting line, is dropped from Airplane.segments while Airplane.N still counts it.  The mirror image fails the same way.
"""
import sys
import machupX as mx

AIRFOILS = {"sym": {"type": "linear", "aL0": 0.0, "CLa": 6.4336, "CmL0": 0.0, "Cma": 0.0,
                    "CD0": 0.00513, "CD1": 0.0, "CD2": 0.0984, "CL_max": 1.4, "geometry": {"NACA": "0010"}}}


def airplane(a, b):
    return {"CG": [0, 0, 0], "weight": 10.0, "airfoils": AIRFOILS, "wings": {
        "boom": {"ID": 1, "side": a, "is_main": True, "semispan": 1.5, "dihedral": 90.0, "airfoil": "sym",
                 "connect_to": {"ID": 0, "y_offset": 0.4}, "grid": {"N": 5}},
        "tail": {"ID": 2, "side": b, "semispan": 2.0, "airfoil": "sym", "connect_to": {"ID": 1, "location": "tip"}, "grid": {"N": 5}}}}


status = 0
for a, b in (("right", "left"), ("left", "right"), ("right", "right")):
    try:
        scene = mx.Scene({})
        scene.add_aircraft("a", airplane(a, b), state={"velocity": 100.0, "alpha": 3.0})
        print("boom", a, "+ tail", b, ": built, Fz =", scene.solve_forces()["a"]["total"]["Fz"])
    except Exception as e:
        status = 1
        print("boom", a, "+ tail", b, ":", type(e).__name__, e)
sys.exit(status)
