"""Aside 1 (unmodified tree): a one-sided LEFT surface whose tip lies exactly on the body x-axis (y = z = 0)
cannot be built (IndexError in Airplane._calculate_geometry), while its mirror image, the same surface
declared on the RIGHT, is built and solved.

Example: a ventral fin described from the keel upwards with "quarter_chord_locs": root 0.5 ft below the
axis (connect_to dz = 0.5), tip on the axis.

Cause: Airplane._sort_segments_left_to_right picks left segments with `norm_to_beat = 0.0; if norm_to_beat < norm`,
so a left segment whose tip has distance 0 from the x-axis is never picked and silently dropped from
Airplane.segments (N still counts it); right segments start from `norm_to_beat = inf` and are always picked.

Expected (C04): both descriptions are accepted and give reflected loads (here: a surface in the plane of
symmetry, so in fact the same loads up to the sign of Fy, Mx, Mz at mirrored beta).
"""
import sys
import warnings

import machupX as mx

AIRFOILS = {"sym": {"type": "linear", "aL0": 0.0, "CLa": 6.4336, "CmL0": 0.0, "Cma": 0.0,
                    "CD0": 0.00513, "CD1": 0.0, "CD2": 0.0984, "CL_max": 1.4, "geometry": {"NACA": "0010"}}}


def airplane(side):
    return {"CG": [0.0, 0.0, 0.0], "weight": 10.0, "airfoils": AIRFOILS,
            "wings": {"wing": {"ID": 1, "side": "both", "is_main": True, "semispan": 3.0, "chord": 1.0,
                               "airfoil": "sym", "grid": {"N": 6}},
                      "ventral": {"ID": 2, "side": side, "chord": 0.5, "airfoil": "sym",
                                  "quarter_chord_locs": [[-0.1, 0.0, -0.5]],
                                  "connect_to": {"ID": 0, "dx": -2.0, "dz": 0.5}, "grid": {"N": 6}}}}


def solve(side, beta):
    scene = mx.Scene({"solver": {"type": "nonlinear"}, "units": "English", "scene": {}})
    scene.add_aircraft("a", airplane(side), state={"velocity": 100.0, "alpha": 3.0, "beta": beta})
    return scene.solve_forces()["a"]["total"]


results = {}
for side, beta in (("right", -4.0), ("left", 4.0)):
    try:
        with warnings.catch_warnings():
            warnings.simplefilter("ignore")
            FM = solve(side, beta)
        results[side] = FM
        print("ventral fin declared {0:5s} beta={1:+.0f}: Fy = {2: .6f}  Mz = {3: .6f}  Fz = {4: .6f}".format(side, beta, FM["Fy"], FM["Mz"], FM["Fz"]))
    except Exception as e:
        results[side] = None
        print("ventral fin declared {0:5s} beta={1:+.0f}: {2}: {3}".format(side, beta, type(e).__name__, e))

ok = results["left"] is not None and results["right"] is not None
if ok:
    for k in ("Fx", "Fz", "My"):
        ok &= abs(results["left"][k]-results["right"][k]) < 1e-8*max(1.0, abs(results["right"][k]))
    for k in ("Fy", "Mx", "Mz"):
        ok &= abs(results["left"][k]+results["right"][k]) < 1e-8*max(1.0, abs(results["right"][k]))
print("expected: both descriptions solve and give reflected loads ->", "OK" if ok else "VIOLATED")
sys.exit(0 if ok else 1)
