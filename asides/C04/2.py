"""Aside 2 (unmodified tree): a laterally symmetric C-wing (wing + vertical winglet + inboard-running top panel,
all "side": "both", all joined tip-to-root, general/Reid corrections on = default) in symmetric flight does not
give zero side force / rolling / yawing moment: the loads are NaN (linear solver) or the nonlinear solver
does not converge.  With "reid_corrections": false the same aeroplane solves and Fy = Mx = Mz = 0.

Cause: Airplane._sort_segments_left_to_right orders the segments of one lifting line by the distance of their
TIP from the body x-axis.  The tip of an inboard-running panel is closer to the axis than the tip of the panel
it is attached to, so the chain is stored as [winglet, wing, top | top, wing, winglet] instead of
[top, winglet, wing | wing, winglet, top]; the span coordinate used by the general corrections is then
meaningless.  The error is the same on both sides (so a mirrored description is equally wrong), but the
consequence "symmetric aircraft in symmetric flight -> Fy = Mx = Mz = 0" is not delivered.
"""
import sys
import warnings

import numpy as np
import machupX as mx

AIRFOILS = {"sym": {"type": "linear", "aL0": 0.0, "CLa": 6.4336, "CmL0": 0.0, "Cma": 0.0,
                    "CD0": 0.00513, "CD1": 0.0, "CD2": 0.0984, "CL_max": 1.4, "geometry": {"NACA": "0010"}}}


def airplane(reid, top_dihedral):
    g = {"N": 8, "reid_corrections": reid}
    return {"CG": [0.0, 0.0, 0.0], "weight": 10.0, "airfoils": AIRFOILS, "wings": {
        "main": {"ID": 1, "side": "both", "is_main": True, "semispan": 4.0, "chord": 1.0, "airfoil": "sym", "grid": dict(g)},
        "winglet": {"ID": 2, "side": "both", "semispan": 1.0, "chord": 0.5, "dihedral": 90.0, "airfoil": "sym",
                    "connect_to": {"ID": 1, "location": "tip"}, "grid": dict(g)},
        "top": {"ID": 3, "side": "both", "semispan": 1.0, "chord": 0.4, "dihedral": top_dihedral, "airfoil": "sym",
                "connect_to": {"ID": 2, "location": "tip"}, "grid": dict(g)}}}


ok = True
for top_dihedral, reid, solver in ((180.0, False, "nonlinear"), (180.0, True, "linear"), (180.0, True, "nonlinear"),
                                   (160.0, False, "nonlinear"), (160.0, True, "nonlinear")):
    if True:
        scene = mx.Scene({"solver": {"type": solver}, "units": "English", "scene": {}})
        with warnings.catch_warnings():
            warnings.simplefilter("ignore")
            scene.add_aircraft("a", airplane(reid, top_dihedral), state={"velocity": 100.0, "alpha": 3.0, "beta": 0.0})
            order = [s.name for s in scene._airplanes["a"].segments]
            try:
                FM = scene.solve_forces()["a"]["total"]
                msg = "Fz = {0: .5f}  Fy = {1: .2e}  Mx = {2: .2e}  Mz = {3: .2e}".format(FM["Fz"], FM["Fy"], FM["Mx"], FM["Mz"])
                good = all(np.isfinite(FM[k]) for k in FM) and max(abs(FM["Fy"]), abs(FM["Mx"]), abs(FM["Mz"])) < 1e-8*abs(FM["Fz"])
            except Exception as e:
                msg = "{0}: {1}".format(type(e).__name__, str(e)[-60:])
                good = False
        ok &= good
        print("top panel dihedral {4:5.1f} reid_corrections={0!s:5s} solver={1:9s} {2}   {3}".format(reid, solver, msg, "" if good else "<-- not Fy = Mx = Mz = 0", top_dihedral))
print("storage order of the lifting line:", order)
print("expected order                   : ['top_left', 'winglet_left', 'main_left', 'main_right', 'winglet_right', 'top_right']")
sys.exit(0 if ok else 1)
