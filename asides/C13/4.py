"""Aside 4 (unmodified tree, model limitation rather than a coding slip): the isolation limit
does not hold for separation along the flight direction.

The trailing vortices are straight and semi-infinite.  An aircraft placed exactly downstream of
another one (same height, same track) feels the Trefftz-plane downwash of the leader at ANY distance:
its lift does not tend to the isolated value as the separation grows, while the leader's does.
The statement 'aircraft separated by a distance much larger than their size produce the loads each
has alone' therefore only holds for separations with a component across the wake.
"""
import sys
import numpy as np
import machupX as MX

AIRFOIL = {"type": "linear", "aL0": -0.03, "CLa": 6.2, "CmL0": -0.05, "Cma": 0.01, "CD0": 0.006, "CD1": -0.004, "CD2": 0.01, "geometry": {"NACA": "2410"}}
PLANE = {"CG": [0, 0, 0], "weight": 50.0, "reference": {"area": 8.0, "longitudinal_length": 1.0, "lateral_length": 8.0},
         "airfoils": {"af": AIRFOIL},
         "wings": {"main": {"ID": 1, "side": "both", "is_main": True, "semispan": 4.0, "chord": 1.0, "airfoil": "af", "grid": {"N": 12}}}}
STATE = {"velocity": 100.0, "alpha": 0.0} # level flight along +x; the wake trails along -x


def CL(positions):
    scene = MX.Scene({"solver": {"type": "nonlinear"}, "scene": {}})
    for name, position in positions.items():
        scene.add_aircraft(name, PLANE, state={"position": position, **STATE})
    FM = scene.solve_forces()
    return {name: FM[name]["total"]["CL"] for name in positions}

alone = CL({"x": [0.0, 0.0, 0.0]})["x"]
print("CL alone: {0:.8f}".format(alone))
worst = 0.0
for d in [1e2, 1e3, 1e4, 1e5]: # span is 8 ft
    r = CL({"leader": [d, 0.0, 0.0], "follower": [0.0, 0.0, 0.0]})
    s = CL({"left": [0.0, -d, 0.0], "right": [0.0, 0.0, 0.0]})
    print("separation {0:8.0f} ft   in line: CL leader {1:.8f}, follower {2:.8f}   |   side by side: CL {3:.8f}, {4:.8f}".format(d, r["leader"], r["follower"], s["left"], s["right"]))
    worst = abs(r["follower"]-alone)/alone
print("relative deviation of the follower from the isolated value at the largest separation: {0:.3f}".format(worst))
if worst > 1e-6:
    print("VIOLATED (in-line separation): the follower never recovers the isolated loads")
    sys.exit(1)
print("HOLDS")
