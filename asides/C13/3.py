"""Aside 3 (unmodified tree): a failed replacement of an aircraft removes the old one.

add_aircraft() under a name that is already in the scene first removes the existing aircraft and
only then builds the new one.  If the new description is rejected (here: no wing is marked as main
and no reference area is given, so the Airplane constructor raises IOError), the caller gets the
exception but the previous aircraft of that name has silently left the scene, and the loads of the
remaining aircraft change.
Expected: a call that raises leaves the scene as it was (same aircraft, same loads).
"""
import sys, copy
import numpy as np
import machupX as MX

AIRFOIL = {"type": "linear", "aL0": -0.03, "CLa": 6.2, "CmL0": -0.05, "Cma": 0.01, "CD0": 0.006, "CD1": -0.004, "CD2": 0.01, "geometry": {"NACA": "2410"}}
PLANE = {"CG": [0, 0, 0], "weight": 50.0, "reference": {"area": 8.0, "longitudinal_length": 1.0, "lateral_length": 8.0},
         "airfoils": {"af": AIRFOIL},
         "wings": {"main": {"ID": 1, "side": "both", "is_main": True, "semispan": 4.0, "chord": 1.0, "airfoil": "af", "grid": {"N": 8}}}}
BAD = copy.deepcopy(PLANE)
BAD.pop("reference")
BAD["wings"]["main"]["is_main"] = False # nothing to derive the reference area from -> IOError

scene = MX.Scene({"solver": {"type": "nonlinear"}, "scene": {}})
scene.add_aircraft("lead", PLANE, state={"position": [0.0, 0.0, 0.0], "velocity": 100.0, "alpha": 3.0})
scene.add_aircraft("wing", PLANE, state={"position": [-4.0, 7.0, 0.0], "velocity": 100.0, "alpha": 3.0})
before = scene.solve_forces()
print("before: aircraft", list(before.keys()), " CL lead = {0:.8f}".format(before["lead"]["total"]["CL"]))

try:
    scene.add_aircraft("wing", BAD, state={"position": [-4.0, 7.0, 0.0], "velocity": 100.0, "alpha": 3.0})
    print("replacement accepted")
except IOError as e:
    print("replacement rejected with IOError:", e)

after = scene.solve_forces()
print("after : aircraft", list(after.keys()), " CL lead = {0:.8f}".format(after["lead"]["total"]["CL"]))
if list(after.keys()) != list(before.keys()) or abs(after["lead"]["total"]["CL"]-before["lead"]["total"]["CL"]) > 1e-10:
    print("VIOLATED: the rejected call changed the scene")
    sys.exit(1)
print("HOLDS")
