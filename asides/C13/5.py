"""Aside 5 (unmodified tree, low severity / documentation): distributions() mixes frames.

All section loads ("Fx".."Mz") and velocities ("u","v","w") of an aircraft are given in its own
body frame, but the control point locations "cpx","cpy","cpz" in the same table are Earth-fixed
(they include the aircraft's position and attitude).  For an aircraft that is translated and rotated
as a whole (same aerodynamic state, uniform atmosphere) every body-frame column is unchanged while the
cp columns change, so e.g. Mx cannot be reproduced from cp x F for any aircraft that is not at the
origin with identity orientation.  The docstring only says "control point x location".
"""
import sys
import numpy as np
import machupX as MX

AIRFOIL = {"type": "linear", "aL0": -0.03, "CLa": 6.2, "CmL0": -0.05, "Cma": 0.01, "CD0": 0.006, "CD1": -0.004, "CD2": 0.01, "geometry": {"NACA": "2410"}}
PLANE = {"CG": [0, 0, 0], "weight": 50.0, "reference": {"area": 8.0, "longitudinal_length": 1.0, "lateral_length": 8.0},
         "airfoils": {"af": AIRFOIL},
         "wings": {"main": {"ID": 1, "side": "both", "is_main": True, "semispan": 4.0, "chord": 1.0, "sweep": 20.0, "airfoil": "af", "grid": {"N": 6}}}}


def dist(state):
    scene = MX.Scene({"solver": {"type": "nonlinear"}, "scene": {}})
    scene.add_aircraft("p", PLANE, state=state)
    return scene.distributions()["p"]["main_right"]

d0 = dist({"velocity": 100.0, "alpha": 3.0})
d1 = dist({"velocity": 100.0, "alpha": 3.0, "position": [100.0, -50.0, -2000.0], "orientation": [10.0, 5.0, 90.0]})
worst_load = max(np.max(np.abs(np.array(d0[k])-np.array(d1[k]))) for k in ["Fx", "Fy", "Fz", "Mx", "My", "Mz", "u", "v", "w"])
worst_cp = max(np.max(np.abs(np.array(d0[k])-np.array(d1[k]))) for k in ["cpx", "cpy", "cpz"])
print("same aircraft, same aerodynamic state, moved and rotated as a whole:")
print("   largest change of a body-frame load/velocity column : {0:.3e}".format(worst_load))
print("   largest change of a control point location column   : {0:.3e}".format(worst_cp))
print("   first control point: at origin {0}, moved {1}".format(np.round([d0[k][0] for k in ["cpx", "cpy", "cpz"]], 4), np.round([d1[k][0] for k in ["cpx", "cpy", "cpz"]], 4)))
if worst_cp > 1e-9:
    print("NOTE: cpx/cpy/cpz are Earth-fixed while the loads in the same table are body-fixed")
    sys.exit(1)
