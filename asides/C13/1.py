"""Aside 1 (unmodified tree): Scene.display_wireframe() draws the trailing vortices of every
aircraft after the first with the trailing directions of the FIRST aircraft's control points.

display_wireframe indexes the scene-wide arrays self._u_trailing_0/1 with the aircraft-local
wing slices (airplane_object.wing_slices) without adding the aircraft's offset in the scene.
Expected: the plotted trailing legs of aircraft 'b' are parallel to b's own freestream.
"""
import sys
import numpy as np
import matplotlib
matplotlib.use("Agg")
import matplotlib.pyplot as plt
import machupX as MX

AIRFOIL = {"type": "linear", "aL0": -0.03, "CLa": 6.2, "CmL0": -0.05, "Cma": 0.01, "CD0": 0.006, "CD1": -0.004, "CD2": 0.01, "geometry": {"NACA": "2410"}}
PLANE = {"CG": [0, 0, 0], "weight": 50.0, "reference": {"area": 8.0, "longitudinal_length": 1.0, "lateral_length": 8.0},
         "airfoils": {"af": AIRFOIL},
         "wings": {"main": {"ID": 1, "side": "both", "is_main": True, "semispan": 4.0, "chord": 1.0, "airfoil": "af", "grid": {"N": 6}}}}

scene = MX.Scene({"solver": {"type": "linear"}, "scene": {}})
scene.add_aircraft("a", PLANE, state={"position": [0.0, 0.0, 0.0], "velocity": 100.0, "alpha": 0.0})
scene.add_aircraft("b", PLANE, state={"position": [0.0, 20.0, 0.0], "velocity": 100.0, "alpha": 20.0, "beta": 15.0})
scene.solve_forces()

captured = []
original_show = plt.show
plt.show = lambda *args, **kwargs: captured.append(plt.gcf())
scene.display_wireframe(show_vortices=True)
plt.show = original_show

# The dashed blue lines are the vortices; one line per wing: the first is a's, the second is b's
lines = [l for l in captured[0].axes[0].lines if l.get_linestyle() == "--"]
worst = 0.0
for name, line in zip(["a", "b"], lines):
    x, y, z = line.get_data_3d()
    pts = np.array([x, y, z]).T
    leg = pts[0]-pts[1] # first vortex: far point minus joint = trailing direction*length
    leg = leg/np.linalg.norm(leg)
    airplane = scene._airplanes[name]
    u_expected = -airplane.v/np.linalg.norm(airplane.v) # freestream direction of this aircraft (no wind, no rotation)
    err = np.linalg.norm(leg-u_expected)
    print("aircraft {0}: plotted trailing direction {1}, own freestream direction {2}, difference {3:.3e}".format(name, np.round(leg, 4), np.round(u_expected, 4), err))
    worst = max(worst, err)
if worst > 1e-8:
    print("VIOLATED: the wireframe shows aircraft b with another aircraft's trailing vortex directions")
    sys.exit(1)
print("HOLDS")
