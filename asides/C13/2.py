"""Aside 2 (unmodified tree): Scene.set_err_state() only reaches the aircraft that are in the
scene at the time of the call; an aircraft added afterwards keeps the default error state.

set_err_state(poly_fit_bounds="ignore") tells the airfoils with polynomial fits not to raise
outside the fitted range.  Two scenes with the same two aircraft differ only in whether 'b' was
added before or after that call.  Expected (order independence): same behaviour / same loads.
Observed: the scene in which 'b' came after set_err_state() raises PolyFitBoundsError.
"""
import sys, os, json
import numpy as np
import machupX as MX

here = os.path.dirname(os.path.abspath(__file__))
fit_file = os.path.join(here, "data", "flat_plate_fit.json")
os.makedirs(os.path.dirname(fit_file), exist_ok=True)
with open(fit_file, "w") as f: # CL = 6.0*alpha, CD = 0.01, Cm = 0; fitted for |alpha| < 0.05 rad only
    json.dump({"degrees_of_freedom": ["alpha"], "limits": [[-0.05, 0.05]], "defaults": {},
               "fit_degrees": {"CL": [1], "CD": [1], "Cm": [1]},
               "fit_coefs": {"CL": [0.0, 6.0], "CD": [0.01, 0.0], "Cm": [0.0, 0.0]}}, f)

PLANE = {"CG": [0, 0, 0], "weight": 50.0, "reference": {"area": 8.0, "longitudinal_length": 1.0, "lateral_length": 8.0},
         "airfoils": {"af": {"type": "poly_fit", "input_file": fit_file, "geometry": {"NACA": "0010"}}},
         "wings": {"main": {"ID": 1, "side": "both", "is_main": True, "semispan": 4.0, "chord": 1.0, "airfoil": "af", "grid": {"N": 6}}}}
STATES = {"a": {"position": [0.0, 0.0, 0.0], "velocity": 100.0, "alpha": 1.0},
          "b": {"position": [0.0, 30.0, 0.0], "velocity": 100.0, "alpha": 5.0}} # 5 deg = 0.087 rad: outside the fitted range


def run(b_first):
    scene = MX.Scene({"solver": {"type": "linear"}, "scene": {}})
    scene.add_aircraft("a", PLANE, state=STATES["a"])
    if b_first:
        scene.add_aircraft("b", PLANE, state=STATES["b"])
    scene.set_err_state(poly_fit_bounds="ignore")
    if not b_first:
        scene.add_aircraft("b", PLANE, state=STATES["b"])
    try:
        FM = scene.solve_forces()
        return "CL a = {0:.6f}, CL b = {1:.6f}".format(FM["a"]["total"]["CL"], FM["b"]["total"]["CL"])
    except Exception as e:
        return "raised {0}".format(type(e).__name__)


r1 = run(True)
r2 = run(False)
print("b added before set_err_state(poly_fit_bounds='ignore'):", r1)
print("b added after  set_err_state(poly_fit_bounds='ignore'):", r2)
if r1 != r2:
    print("VIOLATED: the outcome depends on whether the aircraft was added before or after set_err_state()")
    sys.exit(1)
print("HOLDS")
