"""Aside 2 (unmodified tree): Scene.damping_derivatives() / Scene.derivatives() perturb the angular
rates by a DIMENSIONAL default step (dtheta_dot = 0.005 rad/s).  The nondimensional step
dtheta_dot*b/(2V) therefore changes with the size and speed of the aircraft, and so does the
truncation error of the central difference: the "nondimensional" damping derivatives returned with
default arguments are not invariant under length/speed scaling.  They are invariant (to ~1e-8) when the
caller rescales dtheta_dot like the angular rates.
Expected (C05): identical damping derivatives for all scaled copies.
"""
import warnings
import machupX as MX
warnings.simplefilter("ignore")

AIRFOILS = {
    "flat": {"type": "linear", "aL0": 0.0, "CLa": 6.4336, "CmL0": 0.0, "Cma": 0.0, "CD0": 0.00513, "CD1": 0.0, "CD2": 0.0984, "CL_max": 1.4, "geometry": {"NACA": "0010"}},
    "camb": {"type": "linear", "aL0": -0.0368, "CLa": 6.1976, "CmL0": -0.0525, "Cma": 0.0326, "CD0": 0.00569, "CD1": -0.0045, "CD2": 0.0104, "CL_max": 1.4, "geometry": {"NACA": "2410"}},
}

def airplane(k, N=8):
    return {
        "CG": [-0.2*k, 0.05*k, 0.03*k], "weight": 100.0,
        "reference": {"area": 7.0*k*k, "longitudinal_length": 1.3*k, "lateral_length": 7.5*k},
        "airfoils": AIRFOILS,
        "wings": {
            "main_wing": {"ID": 1, "side": "both", "is_main": True, "semispan": 4.0*k, "chord": [[0.0, 1.4*k], [1.0, 0.7*k]],
                          "sweep": 20.0, "dihedral": [[0.0, 3.0], [0.6, 3.0], [0.6, 10.0], [1.0, 10.0]], "twist": [[0.0, 2.0], [1.0, -1.0]],
                          "airfoil": "camb", "grid": {"N": N}},
            "h_stab": {"ID": 2, "side": "both", "connect_to": {"ID": 1, "location": "root", "dx": -3.0*k, "dz": -0.3*k},
                       "semispan": 1.5*k, "chord": 0.8*k, "airfoil": "flat", "sweep": 10.0, "grid": {"N": N}},
            "v_stab": {"ID": 3, "side": "right", "connect_to": {"ID": 1, "location": "root", "dx": -3.0*k, "dz": -0.1*k},
                       "semispan": 1.2*k, "chord": [[0.0, 0.9*k], [1.0, 0.5*k]], "dihedral": 90.0, "sweep": 25.0, "airfoil": "flat", "grid": {"N": N}},
        }}

def damping(k, kv, **kwargs):
    scene = MX.Scene({"scene": {"atmosphere": {"rho": 0.0023769}}})
    state = {"velocity": [49.0*kv, 3.0*kv, 4.0*kv], "orientation": [5.0, 3.0, 20.0],
             "angular_rates": [0.1*kv/k, 0.05*kv/k, -0.07*kv/k]}
    scene.add_aircraft("plane", airplane(k), state=state)
    return scene.damping_derivatives(stab_frame=True, **kwargs)["plane"]

ref = damping(1.0, 1.0)
keys = ["Cl,pbar", "Cm,qbar", "Cn,rbar", "Cz_s,pbar", "CL,qbar"]
print("reference k=1   V=1x  : " + "  ".join("%s=%+.6f" % (key, ref[key]) for key in keys))
for k, kv in [(0.37, 1.0), (1.0, 2.3), (2.9, 0.6), (6.0, 0.5)]:
    d = damping(k, kv)
    dev = max(abs(d[key]-ref[key])/abs(ref[key]) for key in ref if abs(ref[key]) > 1e-3)
    print("default step  k=%-4g V=%gx: " % (k, kv) + "  ".join("%s=%+.6f" % (key, d[key]) for key in keys) + "   max rel. deviation %.2e" % dev)
    d = damping(k, kv, dtheta_dot=0.005*kv/k)
    dev = max(abs(d[key]-ref[key])/abs(ref[key]) for key in ref if abs(ref[key]) > 1e-3)
    print("scaled step   k=%-4g V=%gx: " % (k, kv) + "  ".join("%s=%+.6f" % (key, d[key]) for key in keys) + "   max rel. deviation %.2e" % dev)
