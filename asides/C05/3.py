"""Aside 3 (unmodified tree, extreme scales only): the trailing-vortex influence is switched off where
denom = r*(r - u.r) <= 1e-13 (scene.py, _calc_invariant_flow_properties).  denom has units of length^2,
so the hard-coded cut-off is an absolute area: for a geometric scale factor around 1e-5 (and any unit
system) legitimate influences fall below it and are zeroed, and the coefficients change.
The solver convergence is rescaled here (see aside 1) so that only the cut-off acts.
Expected (C05): identical coefficients for every positive scale factor.
"""
import warnings
import machupX as MX
warnings.simplefilter("ignore")

AIRFOILS = {"flat": {"type": "linear", "aL0": 0.0, "CLa": 6.4336, "CmL0": 0.0, "Cma": 0.0, "CD0": 0.00513, "CD1": 0.0, "CD2": 0.0984, "CL_max": 1.4, "geometry": {"NACA": "0010"}}}

def airplane(k):
    return {"CG": [0.0, 0.0, 0.0], "weight": 1.0,
            "reference": {"area": 8.0*k*k, "longitudinal_length": 1.0*k, "lateral_length": 8.0*k}, "airfoils": AIRFOILS,
            "wings": {"main_wing": {"ID": 1, "side": "both", "is_main": True, "semispan": 4.0*k, "chord": 1.0*k, "airfoil": "flat", "grid": {"N": 12}},
                      "h_stab": {"ID": 2, "side": "both", "connect_to": {"ID": 1, "location": "root", "dx": -3.0*k, "dz": -0.2*k},
                                 "semispan": 1.5*k, "chord": 0.7*k, "airfoil": "flat", "grid": {"N": 8}}}}

def coefficients(k):
    scene = MX.Scene({"solver": {"convergence": 1e-9*k*k}, "scene": {"atmosphere": {"rho": 0.0023769}}})
    scene.add_aircraft("plane", airplane(k), state={"velocity": 50.0, "alpha": 4.0, "beta": 2.0})
    return scene.solve_forces(dimensional=False)["plane"]["total"]

ref = coefficients(1.0)
print("k=1      CL=%.10f CD=%.10f Cm=%.10f" % (ref["CL"], ref["CD"], ref["Cm"]))
for k in [1e-3, 1e-4, 1e-5, 3e-6, 1e-6]:
    c = coefficients(k)
    dev = max(abs(c[key]-ref[key])/abs(ref[key]) for key in ["CL", "CD", "Cm"])
    print("k=%-6g CL=%.10f CD=%.10f Cm=%.10f   max rel. deviation %.2e" % (k, c["CL"], c["CD"], c["Cm"], dev))
