"""Aside 4 (unmodified tree, output type rather than value): with a density FIELD (4-column "rho" array)
the reference density comes back from the interpolator as a 1-element array, so every coefficient in
the result is a 1-element ndarray instead of a float, and solve_forces(filename=...) cannot write it.
Values themselves are scale invariant.
"""
import warnings, os
import numpy as np
import machupX as MX
warnings.simplefilter("ignore")
AIRFOILS = {"flat": {"type": "linear", "aL0": 0.0, "CLa": 6.4336, "CmL0": 0.0, "Cma": 0.0, "CD0": 0.00513, "CD1": 0.0, "CD2": 0.0984, "CL_max": 1.4, "geometry": {"NACA": "0010"}}}
plane = {"weight": 1.0, "airfoils": AIRFOILS, "wings": {"main_wing": {"ID": 1, "side": "both", "is_main": True, "semispan": 4.0, "chord": 1.0, "airfoil": "flat", "grid": {"N": 10}}}}
field = [[x, y, z, 0.0023769*(1+0.001*z)] for x in (-50.0, 50.0) for y in (-50.0, 50.0) for z in (-50.0, 50.0)]
scene = MX.Scene({"scene": {"atmosphere": {"rho": field}}})
scene.add_aircraft("plane", plane, state={"velocity": 50.0, "alpha": 4.0})
FM = scene.solve_forces(dimensional=False)
print("CL =", repr(FM["plane"]["total"]["CL"]), " (expected a float)")
out = os.path.join(os.path.dirname(os.path.abspath(__file__)), "aside4_out.json")
try:
    scene.solve_forces(dimensional=False, filename=out)
    print("export ok")
except TypeError as e:
    print("export failed:", e)
finally:
    if os.path.exists(out):
        os.remove(out)
