"""Aside 1b (unmodified tree): same cause as aside 1, at a perfectly ordinary size and speed.
An 8-ft-span wing with winglets at V = 20 ft/s: the default solver raises SolverNotConvergedError at full
size, while the geometrically similar half-size and quarter-size models converge and return coefficients.
Expected (C05): the same coefficients at every scale.
"""
import warnings
import machupX as MX
from machupX.exceptions import SolverNotConvergedError
warnings.simplefilter("ignore")
AIRFOILS = {
    "camb": {"type": "linear", "aL0": -0.0368, "CLa": 6.1976, "CmL0": -0.0525, "Cma": 0.0326, "CD0": 0.00569, "CD1": -0.0045, "CD2": 0.0104, "CL_max": 1.4, "geometry": {"NACA": "2410"}},
    "flat": {"type": "linear", "aL0": 0.0, "CLa": 6.4336, "CmL0": 0.0, "Cma": 0.0, "CD0": 0.00513, "CD1": 0.0, "CD2": 0.0984, "CL_max": 1.4, "geometry": {"NACA": "0010"}},
}
def airplane(k):
    return {"CG": [0.0, 0.0, 0.0], "weight": 50.0,
            "reference": {"area": 6.4*k*k, "longitudinal_length": 0.8*k, "lateral_length": 8.0*k}, "airfoils": AIRFOILS,
            "wings": {"main_wing": {"ID": 1, "side": "both", "is_main": True, "semispan": 4.0*k, "chord": [[0.0, 1.0*k], [1.0, 0.6*k]],
                                    "sweep": 25.0, "airfoil": "camb", "grid": {"N": 20}},
                      "winglet": {"ID": 2, "side": "both", "connect_to": {"ID": 1, "location": "tip", "dx": -0.004*k},
                                  "semispan": 0.8*k, "chord": [[0.0, 0.6*k], [1.0, 0.3*k]], "sweep": 35.0, "dihedral": 75.0,
                                  "airfoil": "flat", "grid": {"N": 10}}}}
for k in [1.0, 0.5, 0.25]:
    scene = MX.Scene({"scene": {"atmosphere": {"rho": 0.0023769}}})
    scene.add_aircraft("plane", airplane(k), state={"velocity": 20.0, "alpha": 5.0, "beta": 2.0})
    try:
        c = scene.solve_forces(dimensional=False)["plane"]["total"]
        print("k=%-5g CL=%.10f CD=%.10f Cm=%.10f" % (k, c["CL"], c["CD"], c["Cm"]))
    except SolverNotConvergedError as e:
        print("k=%-5g SolverNotConvergedError: %s" % (k, str(e)[-45:]))
