"""Aside 1 (unmodified tree): the nonlinear solver's convergence test is an ABSOLUTE threshold
(default 1e-10) on a DIMENSIONAL residual (units V^2*L^2), so the default solver is not scale invariant:
  * large / fast configurations cannot reach 1e-10 because of round-off -> SolverNotConvergedError,
  * small / slow configurations pass the test after zero or one Newton step -> coefficients differ.
Expected (C05): same coefficients for every positive length and speed scale.
"""
import warnings
import machupX as MX
from machupX.exceptions import SolverNotConvergedError
warnings.simplefilter("ignore")

AIRFOILS = {"NACA_2410": {"type": "linear", "aL0": -0.0368, "CLa": 6.1976, "CmL0": -0.0525, "Cma": 0.0326,
                          "CD0": 0.00569, "CD1": -0.0045, "CD2": 0.0104, "CL_max": 1.4, "geometry": {"NACA": "2410"}}}

def airplane(k):
    return {"CG": [0.0, 0.0, 0.0], "weight": 50.0,
            "reference": {"area": 8.0*k*k, "longitudinal_length": 1.0*k, "lateral_length": 8.0*k},
            "airfoils": AIRFOILS,
            "wings": {"main_wing": {"ID": 1, "side": "both", "is_main": True, "semispan": 4.0*k, "chord": 1.0*k,
                                    "sweep": 20.0, "airfoil": "NACA_2410", "grid": {"N": 40}},
                      "h_stab": {"ID": 2, "side": "both", "connect_to": {"ID": 1, "location": "root", "dx": -3.0*k, "dz": -0.3*k},
                                 "semispan": 2.0*k, "chord": 0.8*k, "airfoil": "NACA_2410", "grid": {"N": 40}}}}

def coefficients(k, V):
    scene = MX.Scene({"scene": {"atmosphere": {"rho": 0.0023769}}})       # default solver settings
    scene.add_aircraft("plane", airplane(k), state={"velocity": V, "alpha": 5.0, "beta": 3.0})
    return scene.solve_forces(dimensional=False)["plane"]["total"]

ref = coefficients(1.0, 100.0)
print("reference  k=1      V=100 : CL=%.12f CD=%.12f Cm=%.12f" % (ref["CL"], ref["CD"], ref["Cm"]))
for k, V in [(10.0, 100.0), (25.0, 100.0), (1.0, 600.0), (1.0, 1000.0), (0.01, 10.0), (0.001, 10.0), (0.001, 1.0)]:
    try:
        c = coefficients(k, V)
        dev = max(abs(c[key]-ref[key])/abs(ref[key]) for key in ["CL", "CD", "Cm", "Cl", "Cn", "CS"])
        print("scaled     k=%-6g V=%-4g: CL=%.12f CD=%.12f Cm=%.12f   max rel. deviation %.2e" % (k, V, c["CL"], c["CD"], c["Cm"], dev))
    except SolverNotConvergedError as e:
        print("scaled     k=%-6g V=%-4g: SolverNotConvergedError (%s)" % (k, V, str(e)[-40:]))
