# Aside (unmodified tree): the same elliptic wing described as two one-sided segments instead of side="both"
import numpy as np, machupX as MX
RA, a0, b, N = 8.0, 2*np.pi, 4.0, 40
c = 4*(2*b)/(np.pi*RA)
af = {"lin":{"type":"linear","aL0":0.0,"CLa":a0,"CmL0":0.0,"Cma":0.0,"CD0":0.0,"CD1":0.0,"CD2":0.0,"geometry":{"NACA":"0010"}}}
def seg(ID, side): return {"ID":ID,"side":side,"is_main":True,"semispan":b,"chord":["elliptic",c],"airfoil":"lin","grid":{"N":N}}
for label, wings in [("side=both", {"main":seg(1,"both")}), ("left+right segments", {"L":seg(1,"left"),"R":seg(2,"right")})]:
    s = MX.Scene({"scene":{}})
    s.add_aircraft("w", {"CG":[0,0,0],"weight":1.0,"airfoils":af,"wings":wings}, state={"velocity":100.0,"alpha":2.0})
    S, cref, bref = s.get_aircraft_reference_geometry()
    FM = s.solve_forces(dimensional=False)["w"]["total"]
    print(label, "S=%.4f b_ref=%.4f CL=%.6f Cl,pbar=%.6f (Prandtl %.6f)" % (S, bref, FM["CL"], s.damping_derivatives()["w"]["Cl,pbar"], -a0/(8*(1+2*a0/(np.pi*RA)))))
