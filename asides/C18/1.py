"""Aside 1 (unmodified tree): an elliptic wing written as a left-only and a right-only segment gets twice the span
as default lateral reference length, so Cl, Cn and Cl,pbar are wrong (Cl,pbar by a factor 4)."""
import sys, math, warnings
import numpy as np
import machupX as MX
warnings.simplefilter("ignore")

RA = 8.0; a0 = 2*np.pi; b = 4.0; span = 2*b; S = span**2/RA; c_root = 4*S/(np.pi*span)
airfoils = {"lin": {"type": "linear", "aL0": 0.0, "CLa": a0, "CmL0": 0.0, "Cma": 0.0, "CD0": 0.0, "CD1": 0.0, "CD2": 0.0, "CL_max": 100.0}}
half = {"is_main": True, "semispan": b, "chord": ["elliptic", c_root], "airfoil": "lin", "grid": {"N": 40}}

def scene(wings):
    ap = {"CG": [0, 0, 0], "weight": 10.0, "airfoils": airfoils, "wings": wings}
    return MX.Scene({"scene": {"aircraft": {"p": {"file": ap, "state": {"velocity": 10.0, "alpha": 2.0}}}}})

both = scene({"main": dict(half, ID=1, side="both")})
split = scene({"port": dict(half, ID=1, side="left"), "starboard": dict(half, ID=2, side="right")})

Clp_t = -a0/(8*(1+2*a0/(np.pi*RA)))
bad = False
for name, sc in (("side='both'        ", both), ("left + right halves", split)):
    S_ref, c_ref, b_ref = sc.get_aircraft_reference_geometry()
    Clp = sc.damping_derivatives()["p"]["Cl,pbar"]
    print("{0}: S_ref = {1:.4f} (analytic {2:.4f})  lateral length = {3:.4f} (span {4:.4f})  longitudinal = {5:.4f}  Cl,pbar = {6:.5f} (Prandtl {7:.5f}, {8:+.2f} %)".format(
        name, S_ref, S, b_ref, span, c_ref, Clp, Clp_t, 100*(Clp/Clp_t-1)))
    if abs(b_ref/span-1) > 1e-9 or abs(Clp/Clp_t-1) > 0.005:
        bad = True
print("RESULT:", "violated" if bad else "holds")
sys.exit(1 if bad else 0)
