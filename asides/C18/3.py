"""Aside 3 (unmodified tree): the convergence clauses of C18 are not literally true.

 * cosine clustering, alpha = 2 deg: the error of Cl,pbar GROWS with N towards a plateau of +0.081 % (the model's own
   limit differs from Prandtl's value by an O(alpha^2) amount), and the error of CL,a changes sign, so |error| is not
   monotone (2.3e-4, 2e-6, 6e-5 for N = 20, 40, 80).  At alpha = 0 everything is monotone.
 * linear spacing: Cl,pbar converges with order ~0.5 in 1/N, not first order (CL,a is first order, the area is order 1.5).
All values stay inside the 0.5 % band."""
import sys, math, warnings
import numpy as np
import machupX as MX
warnings.simplefilter("ignore")
RA = 8.0; a0 = 2*np.pi; b = 4.0; span = 2*b; S = span**2/RA; c_root = 4*S/(np.pi*span)
def scene(N, dist, alpha):
    ap = {"CG": [0, 0, 0], "weight": 10.0,
          "airfoils": {"lin": {"type": "linear", "aL0": 0.0, "CLa": a0, "CmL0": 0.0, "Cma": 0.0, "CD0": 0.0, "CD1": 0.0, "CD2": 0.0, "CL_max": 100.0}},
          "wings": {"main": {"ID": 1, "side": "both", "is_main": True, "semispan": b, "chord": ["elliptic", c_root], "airfoil": "lin",
                             "grid": {"N": N, "distribution": dist}}}}
    return MX.Scene({"scene": {"aircraft": {"p": {"file": ap, "state": {"velocity": 10.0, "alpha": alpha}}}}})
CLa_t = a0/(1+a0/(np.pi*RA)); Clp_t = -a0/(8*(1+2*a0/(np.pi*RA)))
bad = False
for dist in ("cosine_cluster", "linear"):
    for alpha in (0.0, 2.0):
        print(dist, "alpha =", alpha)
        prev = None; errs = []
        for N in (20, 40, 80, 160):
            sc = scene(N, dist, alpha)
            e_p = sc.damping_derivatives()["p"]["Cl,pbar"]/Clp_t-1
            e_a = sc.stability_derivatives()["p"]["CL,a"]/CLa_t-1
            errs.append((e_p, e_a))
            print("   N = {0:3d}: Cl,pbar error {1:+.6f}   CL,a error {2:+.6f}".format(N, e_p, e_a))
        for k, label in ((0, "Cl,pbar"), (1, "CL,a")):
            mags = [abs(e[k]) for e in errs]
            if any(mags[i+1] > mags[i] for i in range(len(mags)-1)):
                print("   -> |error| of {0} is not monotonically decreasing".format(label)); bad = True
            if dist == "linear":
                order = math.log(mags[1]/mags[3])/math.log(4.0)
                print("   -> observed order of {0} between N = 40 and 160: {1:.2f}".format(label, order))
                if order < 0.8: bad = True
print("RESULT:", "violated" if bad else "holds")
sys.exit(1 if bad else 0)
