"""Aside 4 (unmodified tree): three legitimate-looking inputs that end in an unhelpful exception instead of a result.
 (a) "grid": {"N": 40.0}  (the count written as a float, as some JSON writers do)  -> TypeError from numpy.linspace
 (b) "connect_to": {"ID": 0, "location": "root"} on a wing attached to the origin   -> AttributeError: no attribute 'y_offset'
 (c) Scene.MAC() when no wing carries is_main (reference values given explicitly)   -> ZeroDivisionError"""
import sys, warnings
import numpy as np
import machupX as MX
warnings.simplefilter("ignore")
RA = 8.0; a0 = 2*np.pi; b = 4.0; span = 2*b; S = span**2/RA; c_root = 4*S/(np.pi*span)
def scene(wing_extra, ref=None, pop_main=False):
    wing = {"ID": 1, "side": "both", "is_main": True, "semispan": b, "chord": ["elliptic", c_root], "airfoil": "lin", "grid": {"N": 40}}
    wing.update(wing_extra)
    if pop_main: wing.pop("is_main")
    ap = {"CG": [0, 0, 0], "weight": 10.0,
          "airfoils": {"lin": {"type": "linear", "aL0": 0.0, "CLa": a0, "CmL0": 0.0, "Cma": 0.0, "CD0": 0.0, "CD1": 0.0, "CD2": 0.0, "CL_max": 100.0}},
          "wings": {"main": wing}}
    if ref: ap["reference"] = ref
    return MX.Scene({"scene": {"aircraft": {"p": {"file": ap, "state": {"velocity": 10.0, "alpha": 2.0}}}}})
bad = False
for label, f in (("(a) N = 40.0", lambda: scene({"grid": {"N": 40.0}}).solve_forces()["p"]["total"]["CL"]),
                 ("(b) connect_to root of the origin", lambda: scene({"connect_to": {"ID": 0, "location": "root"}}).solve_forces()["p"]["total"]["CL"]),
                 ("(c) MAC without a main wing", lambda: scene({}, ref={"area": S, "lateral_length": span, "longitudinal_length": S/span}, pop_main=True).MAC()["p"]["length"])):
    try:
        print(label, "->", f())
    except Exception as e:
        bad = True
        print(label, "->", type(e).__name__, ":", e)
print("expected: CL = 0.17547 for (a) and (b); MAC = {0:.5f} (or a clear message) for (c)".format(8*c_root/(3*np.pi)))
sys.exit(1 if bad else 0)
