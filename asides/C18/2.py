"""Aside 2 (unmodified tree): the results depend on the absolute size of the wing.

 (a) A full-size elliptic wing (semispan 20 ft, 200 ft/s; also 30 m, 250 m/s in SI) cannot be solved with the default
     solver settings: solve_forces() raises SolverNotConvergedError although the circulation is converged to machine
     precision (the convergence test is an absolute, dimensional residual norm <= 1e-10).
 (b) A very small wing (semispan 4e-4 length units) loses accuracy (CDi -1 %, Cl,pbar +0.7 % at N = 80 without Reid
     corrections) because trailing-vortex influences are dropped below an absolute cut-off of 1e-13 (length squared).
The same wing at semispan 4, V = 10 is within 0.03 % of Prandtl's values."""
import sys, math, warnings
import numpy as np
import machupX as MX
warnings.simplefilter("ignore")

RA = 8.0; a0 = 2*np.pi
def scene(b, V, N=40, units="English", reid=True):
    span = 2*b; S = span**2/RA; c_root = 4*S/(np.pi*span)
    ap = {"CG": [0, 0, 0], "weight": 10.0,
          "airfoils": {"lin": {"type": "linear", "aL0": 0.0, "CLa": a0, "CmL0": 0.0, "Cma": 0.0, "CD0": 0.0, "CD1": 0.0, "CD2": 0.0, "CL_max": 100.0}},
          "wings": {"main": {"ID": 1, "side": "both", "is_main": True, "semispan": b, "chord": ["elliptic", c_root], "airfoil": "lin",
                             "grid": {"N": N, "reid_corrections": reid}}}}
    return MX.Scene({"units": units, "scene": {"aircraft": {"p": {"file": ap, "state": {"velocity": V, "alpha": 2.0}}}}})

CL_t = a0*math.radians(2.0)/(1+a0/(np.pi*RA)); CD_t = CL_t**2/(np.pi*RA); Clp_t = -a0/(8*(1+2*a0/(np.pi*RA)))
bad = False
print("(a) full-size wings, default solver settings")
for units, b, V in (("English", 4.0, 10.0), ("English", 20.0, 200.0), ("English", 50.0, 500.0), ("SI", 30.0, 250.0)):
    sc = scene(b, V, units=units)
    try:
        FM = sc.solve_forces()["p"]["total"]
        print("   {0:8s} b = {1:6.1f} V = {2:6.1f}: CL = {3:.6f} ({4:+.3f} %)".format(units, b, V, FM["CL"], 100*(FM["CL"]/CL_t-1)))
    except Exception as e:
        bad = True
        print("   {0:8s} b = {1:6.1f} V = {2:6.1f}: {3}: {4}".format(units, b, V, type(e).__name__, str(e)[-45:]))
        sc.set_err_state(not_converged="ignore")
        FM = sc.solve_forces()["p"]["total"]
        print("            (with set_err_state(not_converged='ignore'): CL = {0:.6f}, {1:+.3f} % from Prandtl)".format(FM["CL"], 100*(FM["CL"]/CL_t-1)))
print("(b) very small wings, N = 80, no Reid corrections")
for b in (4.0, 4e-2, 4e-4):
    sc = scene(b, 10.0, N=80, reid=False)
    FM = sc.solve_forces()["p"]["total"]; Clp = sc.damping_derivatives()["p"]["Cl,pbar"]
    e = (FM["CL"]/CL_t-1, FM["CD"]/CD_t-1, Clp/Clp_t-1)
    print("   b = {0:8.4f}: CL {1:+.3f} %  CDi {2:+.3f} %  Cl,pbar {3:+.3f} %".format(b, *(100*x for x in e)))
    if max(abs(x) for x in e) > 0.005: bad = True
print("RESULT:", "violated" if bad else "holds")
sys.exit(1 if bad else 0)
