"""Aside 3 (unmodified tree): CSV tables with numbers written as integers cannot be read.

np.genfromtxt(dtype=None) gives every column its own type.  A file with an integer column and a
float column comes back as a 1-D structured array, which the getters do not understand; a file of
integers with a unit row makes genfromtxt itself fail.  The same tables given inline work.
"""
import os, tempfile
import numpy as np
import machupX as MX

d = tempfile.mkdtemp()
def write(name, text):
    path = os.path.join(d, name)
    with open(path, "w") as f:
        f.write(text)
    return path

def attempt(label, atmos, probe):
    try:
        s = MX.Scene({"units" : "SI", "scene" : {"atmosphere" : atmos}})
        print("{0:<62s}: observed {1}".format(label, probe(s)))
    except Exception as e:
        print("{0:<62s}: observed {1}: {2}".format(label, type(e).__name__, str(e)[:70]))

p = np.array([0.0, 0.0, -1000.0])
print("expected in every density case: rho(1000 m) = 1.1158; in every wind case: wind(1000 m) = [1.5 0.5 0.]")
attempt("density, inline, integer heights", {"rho" : [[0, 1.225], [2000, 1.0066], [4000, 0.81935]]}, lambda s: s._get_density(p))
attempt("density, CSV, integer heights", {"rho" : write("a.csv", "0, 1.225\n2000, 1.0066\n4000, 0.81935\n")}, lambda s: s._get_density(p))
attempt("density, CSV, float heights", {"rho" : write("b.csv", "0.0, 1.225\n2000.0, 1.0066\n4000.0, 0.81935\n")}, lambda s: s._get_density(p))
attempt("wind profile, CSV, integer heights, 3 rows (taken for a vector)", {"V_wind" : write("c.csv", "0, 1.0, 0.0, 0.0\n2000, 2.0, 1.0, 0.0\n4000, 3.0, 2.0, 0.0\n")}, lambda s: s._get_wind(p))
attempt("wind profile, CSV, integer heights, 4 rows", {"V_wind" : write("d.csv", "0, 1.0, 0.0, 0.0\n2000, 2.0, 1.0, 0.0\n4000, 3.0, 2.0, 0.0\n6000, 3.0, 2.0, 0.0\n")}, lambda s: s._get_wind(p))
attempt("density, CSV, all integers with a unit row", {"rho" : write("e.csv", "0, 2\n2000, 1\n4000, 1\nm,kg/m^3\n")}, lambda s: s._get_density(p))
