"""Aside 4 (unmodified tree): below sea level the 'standard' profile is frozen at its sea-level values.

The 1976 standard atmosphere is tabulated from -5 km; its first layer (gradient -6.5 K/km) simply
continues below sea level.  StandardAtmosphere clamps instead: T comes from np.interp (which holds
the end value) and the pressure loop is never entered for H <= 0.  No error, no warning.
A banked aircraft at the default position [0,0,0] has half of its wing at z > 0, so its sections
see a density that varies on the upper half-wing and is constant on the lower one.
"""
import numpy as np
import machupX as MX
from machupX.standard_atmosphere import StandardAtmosphere

sa = StandardAtmosphere("SI")
r0, g0, M0, R = 6356766.0, 9.80665, 28.9644, 8314.32
h = -1000.0
H = r0*h/(r0+h)
T = 288.15-0.0065*H
P = 101325.0*(288.15/T)**(g0*M0/(R*-0.0065))
print("h = -1000 m:  T   expected {0:.4f} K,      observed {1:.4f}".format(T, sa.T(h)))
print("              P   expected {0:.2f} Pa,   observed {1:.2f}".format(P, sa.P(h)))
print("              rho expected {0:.6f} kg/m^3, observed {1:.6f}".format(P*M0/(R*T), sa.rho(h)))

airplane = {
    "CG" : [0.0, 0.0, 0.0], "weight" : 10.0,
    "reference" : {"area" : 8.0, "longitudinal_length" : 1.0, "lateral_length" : 8.0},
    "airfoils" : {"af" : {"type" : "linear", "aL0" : 0.0, "CLa" : 6.28, "CmL0" : 0.0, "Cma" : 0.0, "CD0" : 0.005, "CD1" : 0.0, "CD2" : 0.01, "CL_max" : 1.4}},
    "wings" : {"main_wing" : {"ID" : 1, "side" : "both", "is_main" : True, "semispan" : 40.0, "chord" : 1.0, "airfoil" : "af", "grid" : {"N" : 4}}}
}
scene = MX.Scene({"units" : "SI", "scene" : {"atmosphere" : {"rho" : "standard"}}})
scene.add_aircraft("plane", airplane, state={"velocity" : 50.0, "orientation" : [60.0, 0.0, 0.0]})
print("banked 60 deg at the origin: control point z [m]      :", np.round(scene._PC[:,2], 2))
print("                             density at the sections  :", np.round(scene._rho, 6), "(symmetric about 1.224999 expected)")
