"""Aside 8 (unmodified tree): CSV files that inline tables handle but the file reader does not.

 - a CSV saved as 'CSV UTF-8' (with a byte-order mark, what Excel writes) cannot be read;
 - a one-row profile works inline ([[0.0, 1.2]]) but not from a file.
"""
import os, tempfile
import numpy as np
import machupX as MX

d = tempfile.mkdtemp()
p = np.array([0.0, 0.0, -1000.0])
def attempt(label, expected, rho):
    try:
        s = MX.Scene({"units" : "SI", "scene" : {"atmosphere" : {"rho" : rho}}})
        print("{0:<28s} expected {1}, observed {2}".format(label, expected, s._get_density(p)))
    except Exception as e:
        print("{0:<28s} expected {1}, observed {2}: {3}".format(label, expected, type(e).__name__, e))

path = os.path.join(d, "bom.csv")
with open(path, "wb") as f:
    f.write(b"\xef\xbb\xbf0.0, 1.225\n2000.0, 1.0066\n4000.0, 0.81935\n")
attempt("CSV with UTF-8 BOM", 1.1158, path)
path = os.path.join(d, "plain.csv")
with open(path, "wb") as f:
    f.write(b"0.0, 1.225\n2000.0, 1.0066\n4000.0, 0.81935\n")
attempt("same CSV without BOM", 1.1158, path)
attempt("one-row profile, inline", 1.2, [[0.0, 1.2]])
path = os.path.join(d, "one.csv")
with open(path, "w") as f:
    f.write("0.0, 1.2\n")
attempt("one-row profile, CSV", 1.2, path)
