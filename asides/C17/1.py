"""Aside 1 (unmodified tree): profile tables that are not listed bottom-up do not reproduce their nodes.

A density / wind profile is interpolated with np.interp, which silently assumes ascending heights.
A table listed from the top down (or with negative 'altitudes', as the NOTE in the documentation of
"rho" suggests) is accepted without any message and returns wrong values, even at the nodes.
"""
import numpy as np
import machupX as MX

def scene(atmos):
    return MX.Scene({"units" : "SI", "scene" : {"atmosphere" : atmos}})

print("density profile listed top-down: [[2000,1.0],[1000,1.1],[0,1.2]]")
s = scene({"rho" : [[2000.0, 1.0], [1000.0, 1.1], [0.0, 1.2]]})
for h, expected in [(0.0, 1.2), (500.0, 1.15), (1000.0, 1.1), (2000.0, 1.0)]:
    print("   h = {0:6.0f} m: expected {1:.3f}, observed {2:.3f}".format(h, expected, s._get_density(np.array([0.0, 0.0, -h]))))

print("wind profile listed top-down")
s = scene({"V_wind" : [[2000.0, 20.0, 2.0, 0.0], [1000.0, 10.0, 1.0, 0.0], [0.0, 0.0, 0.0, 0.0]]})
for h, expected in [(0.0, [0.0, 0.0, 0.0]), (1000.0, [10.0, 1.0, 0.0]), (1500.0, [15.0, 1.5, 0.0])]:
    print("   h = {0:6.0f} m: expected {1}, observed {2}".format(h, expected, s._get_wind(np.array([0.0, 0.0, -h]))))

print("density profile with Earth-fixed (negative) altitudes, as the NOTE under \"rho\" in creating_input_files.md asks for")
s = scene({"rho" : [[0.0, 1.2], [-1000.0, 1.1], [-2000.0, 1.0]]})
for h, expected in [(0.0, 1.2), (1000.0, 1.1), (2000.0, 1.0)]:
    print("   z = {0:6.0f} m: expected {1:.3f}, observed {2:.3f}".format(-h, expected, s._get_density(np.array([0.0, 0.0, -h]))))
