"""Aside 5 (unmodified tree): query types the 'standard' profile does not accept / edge of the range.

 - a numpy float32 scalar (not a Python float, not an array) fails in P(), rho(), nu();
 - an array with more than one column fails in P(), rho(), nu() (T(), mu(), a() accept it);
 - in English units the top of the declared range, 86 km = 86000/0.3048 ft, is refused because the
   ft -> m product rounds to 86000.00000000001.
"""
import numpy as np
from machupX.standard_atmosphere import StandardAtmosphere

si = StandardAtmosphere("SI")
en = StandardAtmosphere("English")
def attempt(label, expected, f):
    try:
        print("{0:<46s} expected {1}, observed {2}".format(label, expected, f()))
    except Exception as e:
        print("{0:<46s} expected {1}, observed {2}: {3}".format(label, expected, type(e).__name__, e))

attempt("SI rho(np.float32(1000))", si.rho(1000.0), lambda: si.rho(np.float32(1000.0)))
attempt("SI rho([[1000,2000],[3000,4000]])", [[si.rho(1000.0), si.rho(2000.0)], [si.rho(3000.0), si.rho(4000.0)]], lambda: si.rho(np.array([[1000.0, 2000.0], [3000.0, 4000.0]])))
attempt("SI rho(86000.0) [kg/m^3]", "6.958e-06", lambda: si.rho(86000.0))
attempt("English rho(86000/0.3048 ft)*515.3788 [kg/m^3]", "6.958e-06", lambda: en.rho(86000.0/0.3048)*515.378818)
