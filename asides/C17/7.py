"""Aside 7 (unmodified tree): field tables outside their convex hull.

A control point outside the hull of a density field gets NaN (LinearNDInterpolator default) and the
loads of the whole aircraft become NaN without any error; outside a wind field the wind is silently
zero (fill_value=0.0).  Here the field covers the aircraft origin but is narrower than the span.
"""
import numpy as np
import machupX as MX

airplane = {
    "CG" : [0.0, 0.0, 0.0], "weight" : 10.0,
    "reference" : {"area" : 8.0, "longitudinal_length" : 1.0, "lateral_length" : 8.0},
    "airfoils" : {"af" : {"type" : "linear", "aL0" : 0.0, "CLa" : 6.28, "CmL0" : 0.0, "Cma" : 0.0, "CD0" : 0.005, "CD1" : 0.0, "CD2" : 0.01, "CL_max" : 1.4}},
    "wings" : {"main_wing" : {"ID" : 1, "side" : "both", "is_main" : True, "semispan" : 4.0, "chord" : 1.0, "airfoil" : "af", "grid" : {"N" : 5}}}
}
nodes = [[x, y, z] for x in [-100.0, 100.0] for y in [-3.0, 3.0] for z in [-600.0, -400.0]]
state = {"position" : [0.0, 0.0, -500.0], "velocity" : 50.0, "alpha" : 3.0}

scene = MX.Scene({"units" : "SI", "scene" : {"atmosphere" : {"rho" : [n+[1.0+0.0005*n[2]] for n in nodes]}}})
scene.add_aircraft("plane", airplane, state=state)
print("density at the sections:", scene._rho)
print("CL, FL:", scene.solve_forces()["plane"]["total"]["CL"], scene.solve_forces()["plane"]["total"]["FL"], "(no error raised)")

scene = MX.Scene({"units" : "SI", "scene" : {"atmosphere" : {"V_wind" : [n+[5.0, 0.0, 0.0] for n in nodes]}}})
scene.add_aircraft("plane", airplane, state=state)
print("x-wind at the sections :", scene._v_wind[:,0])
