"""Aside 2 (unmodified tree): the CSV unit row in the form the documentation shows is rejected.

docs/source/units.md gives, for a file:
        0.0, 1.225
        2000.0, 1.0066
        4000.0, 0.81935
        "m", "kg/m^3"
The quotes are not stripped, so the units are looked up as '"m"' and the scene cannot be built.
Without the quotes the same file works.
"""
import os, tempfile
import numpy as np
import machupX as MX

d = tempfile.mkdtemp()
for name, unit_row in [("quoted.csv", '"m", "kg/m^3"'), ("bare.csv", 'm, kg/m^3')]:
    path = os.path.join(d, name)
    with open(path, "w") as f:
        f.write("0.0, 1.225\n2000.0, 1.0066\n4000.0, 0.81935\n"+unit_row+"\n")
    try:
        s = MX.Scene({"units" : "SI", "scene" : {"atmosphere" : {"rho" : path}}})
        print("{0:<11s} unit row {1:<16s}: rho(2000 m) expected 1.0066, observed {2}".format(name, unit_row, s._get_density(np.array([0.0, 0.0, -2000.0]))))
    except Exception as e:
        print("{0:<11s} unit row {1:<16s}: rho(2000 m) expected 1.0066, observed {2}: {3}".format(name, unit_row, type(e).__name__, e))
