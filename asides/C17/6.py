"""Aside 6 (unmodified tree): small departures from the 1976 tables.

 - Between 80 and 86 km the standard distinguishes the kinetic temperature T from the molecular-scale
   temperature T_M (T = T_M*M/M0, M/M0 = 0.999579 at 86 km).  StandardAtmosphere.T() returns T_M, and
   mu() (Sutherland, which wants T) is evaluated with T_M as well.  rho() and a() rightly use T_M.
 - The Pa -> lbf/ft^2 factor in P() (0.02088543815038) differs from the exact 1/47.88025898 =
   0.0208854342 (which mu() uses) by 1.9e-7, so English pressures are 1.9e-7 high relative to SI.
"""
from machupX.standard_atmosphere import StandardAtmosphere
si = StandardAtmosphere("SI")
en = StandardAtmosphere("English")
T_M = 186.946
T = T_M*0.999579
mu = 1.458e-6*T**1.5/(T+110.4)
print("T(86 km):  1976 table {0:.3f} K, observed {1:.3f} K (rel. dev. {2:.1e})".format(T, si.T(86000.0), si.T(86000.0)/T-1.0))
print("mu(86 km): 1976 table {0:.4e}, observed {1:.4e} (rel. dev. {2:.1e})".format(mu, si.mu(86000.0), si.mu(86000.0)/mu-1.0))
P_exact = 101325.0/47.880258980336
print("English P(0): exact {0:.5f} lbf/ft^2, observed {1:.5f} (rel. dev. {2:.1e})".format(P_exact, en.P(0.0), en.P(0.0)/P_exact-1.0))
