# Aside 2 (unmodified tree): with the density given as a *field* (4-column array, documented), every
# coefficient returned by solve_forces and every stability/damping/control derivative is a 1-element
# numpy array instead of a float, and derivatives(filename=...) cannot be written
# (TypeError: Object of type ndarray is not JSON serializable). The numerical values are right.
import sys, os, itertools
sys.path.insert(0, os.path.dirname(os.path.abspath(__file__)))
from common import make_scene

STATE = {"velocity": 100.0, "alpha": 3.0, "beta": 1.0, "position": [0.0, 0.0, -500.0]}
FIELD = [[x, y, z, 0.0023769*(1.0+z/20000.0)] for x, y, z in itertools.product([-100.0, 100.0], [-100.0, 100.0], [-1000.0, 0.0])]

scene = make_scene(STATE, {}, {"rho": FIELD})
d = scene.derivatives()["plane"]
v = d["stability"]["CL,a"]
print("derivatives()['plane']['stability']['CL,a'] =", repr(v), " (expected a float)")
bad = not isinstance(v, float)
try:
    scene.derivatives(filename=os.path.join(os.path.dirname(os.path.abspath(__file__)), "_tmp.json"))
    print("derivatives(filename=...) wrote the file")
except TypeError as e:
    print("derivatives(filename=...) raised TypeError:", e)
    bad = True
tmp = os.path.join(os.path.dirname(os.path.abspath(__file__)), "_tmp.json")
if os.path.exists(tmp): os.remove(tmp)
sys.exit(1 if bad else 0)
