# Aside 4 (unmodified tree, a matter of interpretation): the keys dF*,dqx/dqy/dqz of state_derivatives
# are documented as derivatives with respect to the orientation *quaternion* with step "de", but the
# code perturbs the quaternion component by 0.5*de (q = q0 * normalise([1, .., 0.5*de, ..])) and divides
# by de. The reported number is therefore the derivative per radian of rotation about the body axis,
# i.e. HALF the central difference with respect to the quaternion component itself.
import sys, os, numpy as np
sys.path.insert(0, os.path.dirname(os.path.abspath(__file__)))
from common import make_scene
from machupX.helpers import quat_mult, quat_trans

STATE = {"velocity": 100.0, "alpha": 3.0, "beta": 1.0, "orientation": [5.0, 3.0, 40.0]}
de = 0.001
scene = make_scene(STATE)
v_e, w0, p0, q0 = scene._airplanes["plane"].get_state()
reported = scene.state_derivatives(de=de)["plane"]["dFz,dqy"]

def Fz(dqy):
    q = quat_mult(q0, np.array([1.0, 0.0, dqy, 0.0])); q /= np.linalg.norm(q)
    s = {"orientation": list(q), "velocity": list(quat_trans(q, v_e)), "position": list(p0), "angular_rates": list(w0)}
    return make_scene(s).solve_forces()["plane"]["total"]["Fz"]

wrt_component = (Fz(+de)-Fz(-de))/(2*de)          # quaternion component stepped by +/- de
as_coded = (Fz(+0.5*de)-Fz(-0.5*de))/(2*de)        # what the code does: component +/- de/2, divided by 2*de
print("reported dFz,dqy                                   : %.6f" % reported)
print("central difference, quaternion component +/- de    : %.6f" % wrt_component)
print("component +/- de/2, difference divided by 2*de     : %.6f" % as_coded)
sys.exit(0 if abs(reported-wrt_component) < 1e-3*abs(wrt_component) else 1)
