# Aside 1 (unmodified tree): a control deflection given as a spanwise distribution (documented:
# '"<CONTROL_NAME>" : float or array') makes control_derivatives() - and therefore derivatives() -
# raise, also for the other (scalar) controls. control_derivatives adds the step dtheta to the stored
# array as a whole, i.e. also to its span-location column, so apply_control rejects it.
import sys, os, math
sys.path.insert(0, os.path.dirname(os.path.abspath(__file__)))
from common import make_scene

STATE = {"velocity": 100.0, "alpha": 3.0, "beta": 1.0}
CONTROLS = {"aileron": [[0.0, 1.0], [1.0, 3.0]], "elevator": -3.0, "rudder": 1.0}   # aileron deflection grows from 1 deg (root) to 3 deg (tip)

def loads(controls):
    return make_scene(STATE, controls).solve_forces(dimensional=False)["plane"]["total"]

# The property's right-hand side exists: solve_forces accepts the distribution, and e.g. the elevator can be stepped
f, b = loads(dict(CONTROLS, elevator=-2.5)), loads(dict(CONTROLS, elevator=-3.5))
expected = (f["Cm"]-b["Cm"])/(2*math.radians(0.5))
print("expected  Cm,delevator (central difference of solve_forces, aileron distribution held fixed): %.8f" % expected)

scene = make_scene(STATE, CONTROLS)
try:
    got = scene.control_derivatives()["plane"]["Cm,delevator"]
    print("reported  Cm,delevator: %.8f" % got)
    ok = abs(got-expected) < 1e-6
except Exception as e:
    print("reported  control_derivatives() raised %s: %s" % (type(e).__name__, e))
    ok = False
sys.exit(0 if ok else 1)
