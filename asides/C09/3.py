# Aside 3 (unmodified tree): the derivative functions are not exception safe. When one of them raises
# part-way (solver not converged at a perturbed state, or - simplest to reproduce - an output option
# the function cannot work with), the aircraft is left in the perturbed state, so every later
# solve_forces()/derivative refers to a state the user never set.
# Here: state_derivatives(body_frame=False) raises KeyError('Fx') after its first pair of perturbed
# solutions and the aircraft keeps u0-dV.
import sys, os
sys.path.insert(0, os.path.dirname(os.path.abspath(__file__)))
from common import make_scene

STATE = {"velocity": 100.0, "alpha": 3.0, "beta": 1.0}
scene = make_scene(STATE)
before = scene.solve_forces()["plane"]["total"]["FL"]
v_before = scene._airplanes["plane"].get_aerodynamic_state()
try:
    scene.state_derivatives(body_frame=False, dV=5.0)
except KeyError as e:
    print("state_derivatives(body_frame=False) raised KeyError", e)
after = scene.solve_forces()["plane"]["total"]["FL"]
v_after = scene._airplanes["plane"].get_aerodynamic_state()
print("alpha, beta, V before: %.6f %.6f %.6f   FL = %.6f" % (*v_before, before))
print("alpha, beta, V after : %.6f %.6f %.6f   FL = %.6f" % (*v_after, after))
sys.exit(0 if abs(before-after) < 1e-8 else 1)
