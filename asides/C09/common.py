# Shared small aircraft for the aside scripts (inline airfoils, no file paths)
import copy, warnings
import machupX as MX
warnings.filterwarnings("ignore")

AIRFOILS = {
    "NACA_0010": {"type": "linear", "aL0": 0.0, "CLa": 6.4336, "CmL0": 0.0, "Cma": 0.0,
                  "CD0": 0.00513, "CD1": 0.0, "CD2": 0.0984, "CL_max": 1.4, "geometry": {"NACA": "0010"}},
    "NACA_2410": {"type": "linear", "aL0": -0.0368, "CLa": 6.1976, "CmL0": -0.0525, "Cma": 0.0326,
                  "CD0": 0.00569, "CD1": -0.0045, "CD2": 0.0104, "CL_max": 1.4, "geometry": {"NACA": "2410"}}}

AIRPLANE = {
    "CG": [-0.3, 0.0, 0.05], "weight": 100.0,
    "reference": {"area": 8.0, "longitudinal_length": 1.1, "lateral_length": 7.5},
    "controls": {"aileron": {"is_symmetric": False}, "elevator": {"is_symmetric": True}, "rudder": {"is_symmetric": False}},
    "airfoils": AIRFOILS,
    "wings": {
        "main_wing": {"ID": 1, "side": "both", "is_main": True, "semispan": 4.0, "chord": [[0.0, 1.2], [1.0, 0.7]],
                      "sweep": 12.0, "dihedral": 4.0, "airfoil": "NACA_2410",
                      "control_surface": {"chord_fraction": 0.2, "control_mixing": {"aileron": 1.0}}, "grid": {"N": 8}},
        "h_stab": {"ID": 2, "side": "both", "is_main": False, "connect_to": {"ID": 1, "location": "root", "dx": -3.0},
                   "semispan": 1.5, "chord": 0.6, "airfoil": "NACA_0010",
                   "control_surface": {"chord_fraction": 0.4, "control_mixing": {"elevator": 1.0}}, "grid": {"N": 8}},
        "v_stab": {"ID": 3, "side": "right", "is_main": False, "connect_to": {"ID": 1, "location": "root", "dx": -3.0, "dz": -0.1},
                   "semispan": 1.2, "chord": 0.6, "dihedral": 90.0, "airfoil": "NACA_0010",
                   "control_surface": {"chord_fraction": 0.4, "control_mixing": {"rudder": 1.0}}, "grid": {"N": 8}}}}


def make_scene(state, control_state=None, atmosphere=None):
    return MX.Scene({"solver": {"type": "nonlinear", "convergence": 1e-11}, "units": "English",
                     "scene": {"atmosphere": copy.deepcopy(atmosphere or {}),
                               "aircraft": {"plane": {"file": copy.deepcopy(AIRPLANE), "state": copy.deepcopy(state),
                                                      "control_state": copy.deepcopy(control_state or {})}}}})
